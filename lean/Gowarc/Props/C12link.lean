/-
  C12 ↔ C04: the effect log of Model/Crash.lean is what the sequential writer of Model/Writer.lean does, step by step.

  `stepE` is `SW.step` instrumented with the file-system effects each step issues, in program order (close + rename of
  the file that no longer fits, create + warcinfo member of a new file, the record's member, the acknowledgement with
  the offset the response carries). `C12_log_is_run`: for every operation sequence from the initial state, the effects
  issued along the run are exactly `effectLog` of the files of the final state — so the theorems of Props/C12.lean, which
  are stated over `effectLog`, are theorems about every run of the writer model, and the acknowledged offsets in the log
  are the offsets of the writer's responses (C04).
-/
import Gowarc.Props.C12
import Gowarc.Props.C13
namespace Gowarc.Props.C12
open Gowarc Gowarc.SW Gowarc.Props.C04

theorem membersEffects_append (flush : Bool) (off : Nat) (a b : List Member) :
    membersEffects flush off (a ++ b) = membersEffects flush off a ++ membersEffects flush (off + (flat a).length) b := by
  induction a generalizing off with
  | nil => simp [membersEffects, flat]
  | cons m rest ih =>
    simp only [List.cons_append, membersEffects, ih, List.append_assoc, flat_cons, List.length_append]
    rw [Nat.add_assoc]

/-- effects of closing the current file -/
def closeE (s : SW) : List Eff := match s.cur with | some _ => [Eff.close, Eff.rename] | none => []

/-- effects of creating a file (with its warcinfo member, if a generator is configured) -/
def createE (c : WCfg) (flush : Bool) (s : SW) (ib : Nat → Bytes) : List Eff :=
  [Eff.create (s.serial + 1)] ++ (if c.info then memberEffects flush 0 ⟨0, ib (s.serial + 1), none⟩ else [])

/-- the instrumented Write -/
def writeE (c : WCfg) (scale : Int → Int) (flush : Bool) (s : SW) (r : WRec) : List Eff :=
  match fitClose c scale s r.decl with
  | none => []
  | some cl =>
    let s1 := if cl then close s else s
    (if cl then closeE s else []) ++
    (if s1.cur.isNone then createE c flush s1 r.infoBytes else []) ++
    (match (ready c s cl r.infoBytes).cur with
     | none => []
     | some _ => memberEffects flush (ready c s cl r.infoBytes).curSize ⟨r.tok, r.enc (ready c s cl r.infoBytes).infoOf, (ready c s cl r.infoBytes).infoOf⟩)

/-- a record that fails to marshal: the fit test and the file creation leave their effects; the bytes the marshaler wrote
    before failing are taken back by the truncation and are not part of the log of what stays on disk -/
def failedE (c : WCfg) (scale : Int → Int) (flush : Bool) (s : SW) (r : WRec) : List Eff :=
  match fitClose c scale s r.decl with
  | none => []
  | some cl =>
    (if cl then closeE s else []) ++
    (if (if cl then close s else s).cur.isNone then createE c flush (if cl then close s else s) r.infoBytes else [])

/-- a segmented Write: the effects of the first segment, then those of the continuation written by the nested write().
    (The log acknowledges the first segment as soon as it is in the file, which is EARLIER than the caller's single
    response: the crash theorems then demand more than the property does, never less.) -/
def segE (c : WCfg) (scale : Int → Int) (flush : Bool) (s : SW) (r n : WRec) : List Eff :=
  if (write c scale s r).2.err then writeE c scale flush s r
  else match fitClose c scale (write c scale s r).1 n.decl with
    | none => failedE c scale flush s r
    | some _ => writeE c scale flush s r ++ writeE c scale flush (write c scale s r).1 n

def stepE (c : WCfg) (scale : Int → Int) (flush : Bool) (s : SW) : WOp → List Eff
  | .write r => writeE c scale flush s r
  | .rotate => closeE s
  | .failed r => failedE c scale flush s r
  | .seg r n => segE c scale flush s r n

def runE (c : WCfg) (scale : Int → Int) (flush : Bool) (s : SW) : List WOp → List Eff
  | [] => []
  | op :: rest => stepE c scale flush s op ++ runE c scale flush (step c scale s op).1 rest

theorem effectLog_append (flush : Bool) (a b : List WFile) : effectLog flush (a ++ b) = effectLog flush a ++ effectLog flush b := by
  simp [effectLog]

theorem effectLog_single (flush : Bool) (f : WFile) : effectLog flush [f] = fileEffects flush f := by simp [effectLog]

/-- closing: the log grows by close + rename -/
theorem close_log (flush : Bool) (s : SW) (h : Inv s) : effectLog flush (close s).files = effectLog flush s.files ++ closeE s := by
  unfold close closeE
  cases hc : s.cur with
  | none => simp
  | some id =>
    obtain ⟨init, l, hfs, hlid, hinit, hlopen, _⟩ := Gowarc.Props.C13.Inv.decomp h id hc
    have hmod : modFile s.files id (fun f => { f with isOpen := false }) = init ++ [{ l with isOpen := false }] := by
      rw [hfs, ← hlid]; exact modFile_append_last _ _ _ (by intro f hf; rw [hlid]; exact (hinit f hf).1)
    simp only
    rw [hmod, hfs]
    simp only [effectLog_append, effectLog_single, List.append_assoc]
    congr 1
    unfold fileEffects
    simp [hlopen]

/-- creating: the log grows by create (+ the warcinfo member) -/
theorem create_log (c : WCfg) (flush : Bool) (s : SW) (ib : Nat → Bytes) :
    effectLog flush (createFile c s ib).files = effectLog flush s.files ++ createE c flush s ib := by
  unfold createFile createE
  by_cases hi : c.info = true
  · simp only [hi, ↓reduceIte, effectLog_append, effectLog_single]
    congr 1
    unfold fileEffects
    simp [membersEffects]
  · simp only [hi, Bool.false_eq_true, ↓reduceIte, effectLog_append, effectLog_single]
    congr 1

/-- appending a member to the open file: the log grows by that member's effects at the tracked size -/
theorem append_log (flush : Bool) (s : SW) (id : Nat) (m : Member) (h : Inv s) (hc : s.cur = some id) :
    effectLog flush (modFile s.files id (fun f => { f with members := f.members ++ [m] })) =
      effectLog flush s.files ++ memberEffects flush s.curSize m := by
  obtain ⟨init, l, hfs, hlid, hinit, hlopen, hsz⟩ := Gowarc.Props.C13.Inv.decomp h id hc
  have hmod : modFile s.files id (fun f => { f with members := f.members ++ [m] }) = init ++ [{ l with members := l.members ++ [m] }] := by
    rw [hfs, ← hlid]; exact modFile_append_last _ _ _ (by intro f hf; rw [hlid]; exact (hinit f hf).1)
  rw [hmod, hfs]
  simp only [effectLog_append, effectLog_single, List.append_assoc]
  congr 1
  unfold fileEffects
  simp only [hlopen, ↓reduceIte, List.append_nil, membersEffects_append, Nat.zero_add]
  have : (flat l.members).length = s.curSize := by rw [hsz]; rfl
  rw [this]
  simp [membersEffects]

theorem ready_log (c : WCfg) (flush : Bool) (s : SW) (cl : Bool) (ib : Nat → Bytes) (h : Inv s) :
    effectLog flush (ready c s cl ib).files = effectLog flush s.files ++ (if cl then closeE s else []) ++
      (if (if cl then close s else s).cur.isNone then createE c flush (if cl then close s else s) ib else []) := by
  unfold ready
  have h1 : effectLog flush (if cl then close s else s).files = effectLog flush s.files ++ (if cl then closeE s else []) := by
    cases cl with
    | true => simp only [↓reduceIte]; exact close_log flush s h
    | false => simp
  generalize (if cl then close s else s) = s1 at h1 ⊢
  simp only
  split
  · rw [create_log, h1]
  · rw [h1]; simp

theorem write_log (c : WCfg) (scale : Int → Int) (flush : Bool) (s : SW) (r : WRec) (h : Inv s) :
    effectLog flush (write c scale s r).1.files = effectLog flush s.files ++ writeE c scale flush s r := by
  rw [write_eq]
  unfold writeE
  cases hfit : fitClose c scale s r.decl with
  | none => simp
  | some cl =>
    simp only
    obtain ⟨hr, id, hid⟩ := ready_inv c s cl r.infoBytes h
    simp only [hid]
    rw [append_log flush (ready c s cl r.infoBytes) id _ hr hid, ready_log c flush s cl r.infoBytes h]
    simp [List.append_assoc]

theorem failed_log (c : WCfg) (scale : Int → Int) (flush : Bool) (s : SW) (r : WRec) (h : Inv s) :
    effectLog flush (writeFailed c scale s r).1.files = effectLog flush s.files ++ failedE c scale flush s r := by
  rw [writeFailed_eq]
  unfold failedE
  cases fitClose c scale s r.decl with
  | none => simp
  | some cl =>
    simp only
    rw [ready_log c flush s cl r.infoBytes h]
    simp [List.append_assoc]

theorem step_log (c : WCfg) (scale : Int → Int) (flush : Bool) (s : SW) (op : WOp) (h : Inv s) :
    effectLog flush (step c scale s op).1.files = effectLog flush s.files ++ stepE c scale flush s op := by
  cases op with
  | write r => exact write_log c scale flush s r h
  | rotate => exact close_log flush s h
  | failed r => exact failed_log c scale flush s r h
  | seg r n =>
    show effectLog flush (writeSeg c scale s r n).1.files = effectLog flush s.files ++ segE c scale flush s r n
    unfold writeSeg segE
    by_cases h1 : (write c scale s r).2.err = true
    · simp only [h1, ↓reduceIte]; exact write_log c scale flush s r h
    · simp only [h1, Bool.false_eq_true, ↓reduceIte]
      cases hfit : fitClose c scale (write c scale s r).1 n.decl with
      | none => exact failed_log c scale flush s r h
      | some cl =>
        simp only
        rw [write_log c scale flush _ n (write_inv c scale s r h), write_log c scale flush s r h, List.append_assoc]

/-- **the log is the run**: the effects issued step by step along any run of the writer are exactly the effect log of
    the files the run ends with -/
theorem C12_log_is_run (c : WCfg) (scale : Int → Int) (flush : Bool) (ops : List WOp) :
    runE c scale flush SW.init ops = effectLog flush (run c scale SW.init ops).1.files := by
  suffices ∀ s, C04.Inv s → effectLog flush s.files ++ runE c scale flush s ops = effectLog flush (run c scale s ops).1.files by
    have := this SW.init inv_init
    simpa [SW.init, effectLog] using this
  induction ops with
  | nil => intro s _; simp [runE, run]
  | cons op rest ih =>
    intro s hs
    simp only [runE, run]
    rw [← List.append_assoc, ← step_log c scale flush s op hs]
    exact ih _ (step_inv c scale s op hs)

/-- the acknowledgement a Write issues carries the offset of its response -/
theorem C12_ack_is_response (c : WCfg) (scale : Int → Int) (flush : Bool) (s : SW) (r : WRec) (htok : r.tok ≠ 0)
    (hok : (write c scale s r).2.err = false) :
    ∃ stamp, Eff.ack r.tok (write c scale s r).2.off (r.enc stamp) ∈ writeE c scale flush s r := by
  rw [write_eq] at hok ⊢
  unfold writeE
  cases hfit : fitClose c scale s r.decl with
  | none => simp [hfit] at hok
  | some cl =>
    simp only [hfit] at hok ⊢
    cases hcur : (ready c s cl r.infoBytes).cur with
    | none => simp [hcur] at hok
    | some id =>
      simp only [hcur]
      refine ⟨(ready c s cl r.infoBytes).infoOf, ?_⟩
      simp only [List.mem_append]
      right
      unfold memberEffects
      have : (r.tok == 0) = false := by simp [htok]
      simp [this]

end Gowarc.Props.C12
