/-
  C13, "names … carry the compression suffix exactly when compressed and the in-progress suffix exactly while open":
  how the name on disk is put together in createFile and taken apart again in close (skeleton: Model/WriterSkeleton.lean).

  The final name is the name on disk with the in-progress suffix trimmed off its END. Whatever the generated name contains
  — also the text of the in-progress suffix itself, as in a host name `crawler1.openstack.internal` — the final name is
  exactly generated name ++ compression suffix (`C13_final_name`). Cutting at the FIRST occurrence instead (seed C12-i) is
  refuted by a two-line example.
-/
import Gowarc.Model.Writer
namespace Gowarc.SW

/-- strings.TrimSuffix -/
def trimSuffix (l sfx : Bytes) : Bytes :=
  if sfx.length ≤ l.length ∧ l.drop (l.length - sfx.length) = sfx then l.take (l.length - sfx.length) else l

/-- createFile: generated name, compression suffix when compressing, in-progress suffix while open -/
def onDiskName (gen comprSfx openSfx : Bytes) (compress isOpen : Bool) : Bytes :=
  gen ++ (if compress then comprSfx else []) ++ (if isOpen then openSfx else [])

end Gowarc.SW

namespace Gowarc.Props.C13
open Gowarc Gowarc.SW

theorem trimSuffix_append (a sfx : Bytes) : trimSuffix (a ++ sfx) sfx = a := by
  unfold trimSuffix
  have h1 : sfx.length ≤ (a ++ sfx).length := by simp
  have h2 : (a ++ sfx).length - sfx.length = a.length := by simp
  rw [h2]
  simp

/-- **the final name is the generated name plus the compression suffix**, for every generated name, every pair of
    suffixes and both compression settings: renaming at close undoes exactly what createFile appended -/
theorem C13_final_name (gen comprSfx openSfx : Bytes) (compress : Bool) :
    trimSuffix (onDiskName gen comprSfx openSfx compress true) openSfx = onDiskName gen comprSfx openSfx compress false := by
  unfold onDiskName
  simp only [↓reduceIte, Bool.false_eq_true, List.append_nil]
  exact trimSuffix_append _ _

/-- … and it carries the compression suffix exactly when compressing -/
theorem C13_final_suffix (gen comprSfx openSfx : Bytes) :
    onDiskName gen comprSfx openSfx true false = gen ++ comprSfx ∧ onDiskName gen comprSfx openSfx false false = gen := by
  unfold onDiskName; simp

/-- a final name and the in-progress name of the same file differ whenever the in-progress suffix is not empty: a reader
    of the directory can tell them apart by length -/
theorem C13_open_differs (gen comprSfx openSfx : Bytes) (compress : Bool) (h : openSfx ≠ []) :
    onDiskName gen comprSfx openSfx compress true ≠ onDiskName gen comprSfx openSfx compress false := by
  unfold onDiskName
  simp only [↓reduceIte, Bool.false_eq_true, List.append_nil]
  intro e
  have := congrArg List.length e
  simp only [List.length_append] at this
  have hp : openSfx.length > 0 := List.length_pos_iff.mpr h
  omega

/-- cutting at the FIRST occurrence of the suffix text is wrong for a generated name that contains it -/
example : trimSuffix (onDiskName (bs "w.opendata") [] (bs ".open") false true) (bs ".open") = bs "w.opendata" ∧
    (bs "w.opendata.open").take 1 ≠ bs "w.opendata" := by decide

end Gowarc.Props.C13
