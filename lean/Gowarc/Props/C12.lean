/-
  C12 — A killed writer leaves only complete final files and whole-record prefixes.

  Model: `effectLog` / `crashDisk` (Model/Crash.lean): the file-system effects of the sequential writer in program order,
  at byte granularity, and the disk after the first k of them.
  Tie: correspondence kind `crash` — the workload runs in a child process under `strace`; the traced
  openat/write/fsync/close/rename calls on the output directory (consecutive writes merged) and the acknowledgements the
  child prints must equal the model's log for the same history; every crash state (every effect boundary and every byte
  inside every write) is materialised from the trace and judged by an independent scanner; a number of real SIGKILLs at
  trace-chosen instants validate the materialisation.

  Theorems, for every list of files in which all but the last are closed (the invariant of every reachable writer
  state, C04/C13) and EVERY kill point k:
  * `C12_shape`: the disk holds the earlier files complete under their final names, followed by at most one in-progress
    file whose content is whole members followed by a strict prefix of the next member;
  * `C12_acked`: every record whose Write has returned lies completely in its file at its reported offset;
  * `C12_final_stable`: a file that carries its final name is never touched by a later effect.
-/
import Gowarc.Model.Crash
import Gowarc.Props.C04
namespace Gowarc.Props.C12
open Gowarc

def flat (ms : List Member) : Bytes := (ms.map (·.bytes)).flatten

theorem flat_append (a b : List Member) : flat (a ++ b) = flat a ++ flat b := by simp [flat]
theorem flat_cons (m : Member) (b : List Member) : flat (m :: b) = m.bytes ++ flat b := by simp [flat]
theorem content_eq_flat (f : WFile) : f.content = flat f.members := rfl

/-- whole members followed by a strict prefix of the next one (possibly empty) -/
def WPP (ms : List Member) (c : Bytes) : Prop :=
  ∃ done rest part, ms = done ++ rest ∧ c = flat done ++ part ∧
    (part = [] ∨ ∃ m rest' tl, rest = m :: rest' ∧ m.bytes = part ++ tl ∧ tl ≠ [])

def full (f : WFile) : DFile := ⟨f.id, f.content, true⟩

/-- complete final files, then at most one in-progress file -/
def ShapeOK (files : List WFile) (d : Disk) : Prop :=
  ∃ n, n ≤ files.length ∧
    (d.files = (files.take n).map full ∨
     ∃ f c, files[n]? = some f ∧ d.files = (files.take n).map full ++ [⟨f.id, c, false⟩] ∧ WPP f.members c)

def AcksOK (d : Disk) : Prop :=
  ∀ a ∈ d.acks, ∃ x ∈ d.files, x.id = a.file ∧ ∃ pre post, x.content = pre ++ a.bytes ++ post ∧ pre.length = a.off

def Good (files : List WFile) (d : Disk) : Prop := ShapeOK files d ∧ AcksOK d

/-- the property holds after every prefix of the effect list -/
def APG (files : List WFile) (d : Disk) (es : List Eff) : Prop := ∀ k, Good files (d.exec (es.take k))

theorem exec_append (d : Disk) (a b : List Eff) : d.exec (a ++ b) = (d.exec a).exec b := by
  induction a generalizing d with
  | nil => rfl
  | cons e rest ih => simp only [List.cons_append, Disk.exec]; exact ih _

theorem apg_nil (files : List WFile) (d : Disk) (h : Good files d) : APG files d [] := by
  intro k; simpa [Disk.exec] using h

theorem apg_cons (files : List WFile) (d : Disk) (e : Eff) (es : List Eff) (h : Good files d) (ht : APG files (d.apply e) es) :
    APG files d (e :: es) := by
  intro k
  cases k with
  | zero => simpa [Disk.exec] using h
  | succ k => simpa [Disk.exec] using ht k

theorem apg_append (files : List WFile) (d : Disk) (a b : List Eff) (ha : APG files d a) (hb : APG files (d.exec a) b) :
    APG files d (a ++ b) := by
  intro k
  rw [List.take_append]
  by_cases hk : k ≤ a.length
  · have : k - a.length = 0 := by omega
    rw [this, List.take_zero, List.append_nil]; exact ha k
  · rw [List.take_of_length_le (by omega), exec_append]; exact hb (k - a.length)

/-- the disk while file `id` is being written -/
def D (F : List DFile) (id : Nat) (c : Bytes) (A : List Ack) : Disk := ⟨F ++ [⟨id, c, false⟩], A⟩

theorem modLast_snoc {α} (l : List α) (x : α) (g : α → α) : modLast (l ++ [x]) g = l ++ [g x] := by
  simp [modLast]

theorem lastId_snoc (l : List DFile) (x : DFile) : lastId (l ++ [x]) = x.id := by simp [lastId]

theorem apply_byte (F : List DFile) (id : Nat) (c : Bytes) (A : List Ack) (b : UInt8) :
    (D F id c A).apply (.byte b) = D F id (c ++ [b]) A := by
  simp [D, Disk.apply, modLast_snoc]

theorem exec_bytes (F : List DFile) (id : Nat) (c : Bytes) (A : List Ack) (bs : Bytes) :
    (D F id c A).exec (bs.map Eff.byte) = D F id (c ++ bs) A := by
  induction bs generalizing c with
  | nil => simp [Disk.exec]
  | cons b rest ih => simp only [List.map_cons, Disk.exec, apply_byte, ih]; simp

theorem apg_bytes (files : List WFile) (F : List DFile) (id : Nat) (c : Bytes) (A : List Ack) (bs : Bytes)
    (h : ∀ j, j ≤ bs.length → Good files (D F id (c ++ bs.take j) A)) : APG files (D F id c A) (bs.map Eff.byte) := by
  induction bs generalizing c with
  | nil => exact apg_nil files _ (by simpa using h 0 (Nat.le_refl _))
  | cons b rest ih =>
    rw [List.map_cons]
    apply apg_cons
    · simpa using h 0 (Nat.zero_le _)
    · rw [apply_byte]
      apply ih
      intro j hj
      have := h (j + 1) (by simp; omega)
      simpa [List.take_succ_cons, List.append_assoc] using this

theorem acks_mono (F : List DFile) (id : Nat) (c x : Bytes) (fl : Bool) (A : List Ack) (h : AcksOK ⟨F ++ [⟨id, c, false⟩], A⟩) :
    AcksOK ⟨F ++ [⟨id, c ++ x, fl⟩], A⟩ := by
  intro a ha
  obtain ⟨y, hy, hid, pre, post, hc, hl⟩ := h a ha
  rw [List.mem_append, List.mem_singleton] at hy
  rcases hy with hy | rfl
  · exact ⟨y, by simp [hy], hid, pre, post, hc, hl⟩
  · exact ⟨⟨id, c ++ x, fl⟩, by simp, hid, pre, post ++ x, by simp only at hc ⊢; rw [hc]; simp [List.append_assoc], hl⟩

/-- context of a file being written: `F` are the earlier files, complete and final; `f` is file number `n` -/
structure Ctx (files : List WFile) (F : List DFile) (n : Nat) (f : WFile) : Prop where
  hn : files[n]? = some f
  hF : F = (files.take n).map full

theorem shape_mid (files : List WFile) (F : List DFile) (n : Nat) (f : WFile) (cx : Ctx files F n f) (c : Bytes) (A : List Ack)
    (hw : WPP f.members c) : ShapeOK files (D F f.id c A) := by
  have hlt : n < files.length := by
    rcases Nat.lt_or_ge n files.length with h | h
    · exact h
    · have := cx.hn; rw [List.getElem?_eq_none h] at this; cases this
  exact ⟨n, Nat.le_of_lt hlt, Or.inr ⟨f, c, cx.hn, by rw [cx.hF]; rfl, hw⟩⟩

/-- running the members `todo` of file `f` after `done` are on disk -/
theorem members_run (files : List WFile) (flush : Bool) (F : List DFile) (n : Nat) (f : WFile) (cx : Ctx files F n f)
    (todo : List Member) (done : List Member) (A : List Ack) (hms : f.members = done ++ todo)
    (hA : AcksOK (D F f.id (flat done) A)) :
    APG files (D F f.id (flat done) A) (membersEffects flush (flat done).length todo) ∧
    ∃ A', (D F f.id (flat done) A).exec (membersEffects flush (flat done).length todo) = D F f.id (flat f.members) A' ∧
          AcksOK (D F f.id (flat f.members) A') := by
  induction todo generalizing done A with
  | nil =>
    have : f.members = done := by simpa using hms
    refine ⟨apg_nil files _ ⟨shape_mid files F n f cx _ A ⟨done, [], [], by simpa using hms, by simp, Or.inl rfl⟩, hA⟩, A, ?_, ?_⟩
    · simp [membersEffects, Disk.exec, this]
    · rw [this]; exact hA
  | cons m rest ih =>
    -- the state after the bytes of m
    have hbytes : (D F f.id (flat done) A).exec (m.bytes.map Eff.byte) = D F f.id (flat done ++ m.bytes) A := exec_bytes _ _ _ _ _
    have hdone' : flat (done ++ [m]) = flat done ++ m.bytes := by simp [flat]
    have hms' : f.members = (done ++ [m]) ++ rest := by simp [hms]
    -- shape during the bytes of m
    have hshape : ∀ j, j ≤ m.bytes.length → Good files (D F f.id (flat done ++ m.bytes.take j) A) := by
      intro j hj
      refine ⟨shape_mid files F n f cx _ A ?_, acks_mono F f.id (flat done) _ false A hA⟩
      by_cases hjl : j = m.bytes.length
      · refine ⟨done ++ [m], rest, [], hms', ?_, Or.inl rfl⟩
        rw [hjl, List.take_length, hdone']; simp
      · refine ⟨done, m :: rest, m.bytes.take j, hms, rfl, ?_⟩
        by_cases hj0 : m.bytes.take j = []
        · exact Or.inl hj0
        · refine Or.inr ⟨m, rest, m.bytes.drop j, rfl, (List.take_append_drop j m.bytes).symm, ?_⟩
          intro hd
          have : (m.bytes.drop j).length = 0 := by rw [hd]; rfl
          rw [List.length_drop] at this
          omega
    -- acks after m
    let Am : List Ack := if m.tok == 0 then A else A ++ [⟨f.id, m.tok, (flat done).length, m.bytes⟩]
    have hAm : AcksOK (D F f.id (flat done ++ m.bytes) Am) := by
      have base := acks_mono F f.id (flat done) m.bytes false A hA
      show AcksOK ⟨F ++ [⟨f.id, flat done ++ m.bytes, false⟩], Am⟩
      by_cases ht : (m.tok == 0) = true
      · simp only [Am, ht, ↓reduceIte]; exact base
      · simp only [Am, ht, Bool.false_eq_true, ↓reduceIte]
        intro a ha
        rw [List.mem_append, List.mem_singleton] at ha
        rcases ha with ha | rfl
        · exact base a ha
        · exact ⟨⟨f.id, flat done ++ m.bytes, false⟩, by simp, rfl, flat done, [], by simp, rfl⟩
    have hexec_m : (D F f.id (flat done) A).exec (memberEffects flush (flat done).length m) = D F f.id (flat done ++ m.bytes) Am := by
      unfold memberEffects
      rw [exec_append, exec_append, hbytes]
      have hsync : (D F f.id (flat done ++ m.bytes) A).exec (if flush then [Eff.sync] else []) = D F f.id (flat done ++ m.bytes) A := by
        split <;> simp [Disk.exec, Disk.apply]
      rw [hsync]
      by_cases ht : (m.tok == 0) = true
      · simp [Am, ht, Disk.exec]
      · simp only [ht, Bool.false_eq_true, ↓reduceIte, Am, Disk.exec, Disk.apply, D, lastId_snoc]
    have hgood_after : Good files (D F f.id (flat done ++ m.bytes) A) := by simpa using hshape m.bytes.length (Nat.le_refl _)
    have hgood_am : Good files (D F f.id (flat done ++ m.bytes) Am) :=
      ⟨by have := hgood_after.1; exact this, hAm⟩
    have hapg_m : APG files (D F f.id (flat done) A) (memberEffects flush (flat done).length m) := by
      unfold memberEffects
      rw [List.append_assoc]
      apply apg_append
      · exact apg_bytes files F f.id (flat done) A m.bytes hshape
      · rw [hbytes]
        apply apg_append
        · split
          · exact apg_cons files _ _ _ hgood_after (apg_nil files _ (by simpa [Disk.apply] using hgood_after))
          · exact apg_nil files _ hgood_after
        · have hsync : (D F f.id (flat done ++ m.bytes) A).exec (if flush then [Eff.sync] else []) = D F f.id (flat done ++ m.bytes) A := by
            split <;> simp [Disk.exec, Disk.apply]
          rw [hsync]
          by_cases ht : (m.tok == 0) = true
          · simp only [ht, ↓reduceIte]; exact apg_nil files _ hgood_after
          · simp only [ht, Bool.false_eq_true, ↓reduceIte]
            apply apg_cons files _ _ _ hgood_after
            apply apg_nil
            have : (D F f.id (flat done ++ m.bytes) A).apply (Eff.ack m.tok (flat done).length m.bytes) = D F f.id (flat done ++ m.bytes) Am := by
              simp only [ht, Bool.false_eq_true, ↓reduceIte, Am, Disk.apply, D, lastId_snoc]
            rw [this]; exact hgood_am
    -- continue with the rest
    have hih := ih (done ++ [m]) Am hms' (by rw [hdone']; exact hAm)
    rw [hdone'] at hih
    have hlen : (flat done ++ m.bytes).length = (flat done).length + m.bytes.length := by simp
    rw [hlen] at hih
    obtain ⟨hapg_rest, A', hexec_rest, hA'⟩ := hih
    refine ⟨?_, A', ?_, hA'⟩
    · show APG files _ (memberEffects flush (flat done).length m ++ membersEffects flush ((flat done).length + m.bytes.length) rest)
      apply apg_append _ _ _ _ hapg_m
      rw [hexec_m]; exact hapg_rest
    · show (D F f.id (flat done) A).exec (memberEffects flush (flat done).length m ++ membersEffects flush ((flat done).length + m.bytes.length) rest) = _
      rw [exec_append, hexec_m]; exact hexec_rest

/-- the disk between files: earlier files complete and final -/
def Between (files : List WFile) (n : Nat) (A : List Ack) : Disk := ⟨(files.take n).map full, A⟩

theorem acks_between (F : List DFile) (x : DFile) (y : DFile) (A : List Ack) (hid : y.id = x.id) (hc : y.content = x.content)
    (h : AcksOK ⟨F ++ [x], A⟩) : AcksOK ⟨F ++ [y], A⟩ := by
  intro a ha
  obtain ⟨z, hz, hzid, pre, post, hzc, hl⟩ := h a ha
  rw [List.mem_append, List.mem_singleton] at hz
  rcases hz with hz | rfl
  · exact ⟨z, by simp [hz], hzid, pre, post, hzc, hl⟩
  · exact ⟨y, by simp, by rw [hid]; exact hzid, pre, post, by rw [hc]; exact hzc, hl⟩

/-- running one file -/
theorem file_run (files : List WFile) (flush : Bool) (n : Nat) (f : WFile) (A : List Ack) (hn : files[n]? = some f)
    (hA : AcksOK (Between files n A)) :
    APG files (Between files n A) (fileEffects flush f) ∧
    ∃ A', (f.isOpen = false → (Between files n A).exec (fileEffects flush f) = Between files (n + 1) A' ∧ AcksOK (Between files (n + 1) A')) := by
  have hlt : n < files.length := by
    rcases Nat.lt_or_ge n files.length with h | h
    · exact h
    · rw [List.getElem?_eq_none h] at hn; cases hn
  let F := (files.take n).map full
  have cx : Ctx files F n f := ⟨hn, rfl⟩
  have hgood0 : Good files (Between files n A) := ⟨⟨n, Nat.le_of_lt hlt, Or.inl rfl⟩, hA⟩
  have hcreate : (Between files n A).apply (.create f.id) = D F f.id [] A := rfl
  have hA0 : AcksOK (D F f.id (flat []) A) := by
    intro a ha
    obtain ⟨z, hz, r⟩ := hA a ha
    exact ⟨z, by simp [D]; exact Or.inl hz, r⟩
  obtain ⟨hapg_m, A', hexec_m, hA'⟩ := members_run files flush F n f cx f.members [] A (by simp) hA0
  have hflat0 : flat ([] : List Member) = [] := rfl
  rw [hflat0] at hapg_m hexec_m
  simp only [List.length_nil] at hapg_m hexec_m
  have hgood_full : Good files (D F f.id (flat f.members) A') :=
    ⟨shape_mid files F n f cx _ A' ⟨f.members, [], [], by simp, by simp, Or.inl rfl⟩, hA'⟩
  have htake : (files.take (n + 1)).map full = F ++ [full f] := by
    rw [List.take_add_one, hn]; simp [F]
  have hgood_final : Good files ⟨F ++ [full f], A'⟩ := by
    refine ⟨⟨n + 1, hlt, Or.inl (by rw [htake])⟩, ?_⟩
    exact acks_between F ⟨f.id, flat f.members, false⟩ (full f) A' rfl rfl hA'
  refine ⟨?_, A', ?_⟩
  · unfold fileEffects
    rw [List.append_assoc, List.singleton_append]
    apply apg_cons files _ _ _ hgood0
    rw [hcreate]
    apply apg_append _ _ _ _ hapg_m
    rw [hexec_m]
    split
    · exact apg_nil files _ hgood_full
    · apply apg_cons files _ _ _ hgood_full
      apply apg_cons files _ _ _ (by simpa [Disk.apply] using hgood_full)
      apply apg_nil
      have : ((D F f.id (flat f.members) A').apply Eff.close).apply Eff.rename = ⟨F ++ [full f], A'⟩ := by
        simp [D, Disk.apply, modLast_snoc, full, content_eq_flat]
      rw [this]; exact hgood_final
  · intro hclosed
    unfold fileEffects
    rw [List.append_assoc, List.singleton_append, Disk.exec, hcreate, exec_append, hexec_m]
    simp only [hclosed, Bool.false_eq_true, ↓reduceIte, Disk.exec]
    have : ((D F f.id (flat f.members) A').apply Eff.close).apply Eff.rename = ⟨F ++ [full f], A'⟩ := by
      simp [D, Disk.apply, modLast_snoc, full, content_eq_flat]
    rw [this]
    exact ⟨by simp [Between, htake], by simpa [Between, htake] using hgood_final.2⟩

/-- running the files from number n on -/
theorem files_run (files : List WFile) (flush : Bool) (hclosed : ∀ f ∈ files.dropLast, f.isOpen = false)
    (rest : List WFile) (n : Nat) (A : List Ack) (hsplit : files = files.take n ++ rest) (hA : AcksOK (Between files n A)) :
    APG files (Between files n A) (effectLog flush rest) := by
  induction rest generalizing n A with
  | nil =>
    have hlen : n ≥ files.length ∨ n < files.length := by omega
    refine apg_nil files _ ⟨⟨min n files.length, Nat.min_le_right _ _, Or.inl ?_⟩, hA⟩
    simp only [Between]
    rcases hlen with h | h
    · rw [Nat.min_eq_right h, List.take_of_length_le h, List.take_of_length_le (Nat.le_refl _)]
    · have hl := congrArg List.length hsplit
      simp at hl; omega
  | cons f rest ih =>
    have hnlen : (files.take n).length = n := by
      have hl := congrArg List.length hsplit
      simp at hl ⊢; omega
    have hn : files[n]? = some f := by
      rw [hsplit, List.getElem?_append_right (by omega), hnlen]; simp
    obtain ⟨hapg_f, A', hex⟩ := file_run files flush n f A hn hA
    show APG files _ (fileEffects flush f ++ effectLog flush rest)
    cases rest with
    | nil =>
      have : effectLog flush ([] : List WFile) = [] := rfl
      rw [this, List.append_nil]; exact hapg_f
    | cons g rest' =>
      -- f is not the last file, so it was closed
      have hfc : f.isOpen = false := by
        apply hclosed
        rw [hsplit, List.dropLast_append_of_ne_nil (by simp)]
        simp
      obtain ⟨hexec, hA'⟩ := hex hfc
      apply apg_append _ _ _ _ hapg_f
      rw [hexec]
      apply ih (n + 1) A' ?_ hA'
      rw [List.take_add_one, hn]
      conv => lhs; rw [hsplit]
      simp

/-- **shape and acknowledgements at every kill point** -/
theorem C12_all (flush : Bool) (files : List WFile) (hclosed : ∀ f ∈ files.dropLast, f.isOpen = false) (k : Nat) :
    Good files (crashDisk flush files k) := by
  have := files_run files flush hclosed files 0 [] (by simp) (by intro a ha; cases ha)
  exact this k

theorem C12_shape (flush : Bool) (files : List WFile) (hclosed : ∀ f ∈ files.dropLast, f.isOpen = false) (k : Nat) :
    ShapeOK files (crashDisk flush files k) := (C12_all flush files hclosed k).1

/-- every record whose Write had returned is fully present in its file at its reported offset -/
theorem C12_acked (flush : Bool) (files : List WFile) (hclosed : ∀ f ∈ files.dropLast, f.isOpen = false) (k : Nat) :
    AcksOK (crashDisk flush files k) := (C12_all flush files hclosed k).2

/-- a file under its final name is complete: it is one of the writer's files with all of its members -/
theorem C12_final_complete (flush : Bool) (files : List WFile) (hclosed : ∀ f ∈ files.dropLast, f.isOpen = false) (k : Nat)
    (x : DFile) (hx : x ∈ (crashDisk flush files k).files) (hf : x.final = true) :
    ∃ f ∈ files, x = full f := by
  obtain ⟨n, _, h | ⟨f, c, _, h, _⟩⟩ := C12_shape flush files hclosed k
  · rw [h, List.mem_map] at hx
    obtain ⟨f, hfm, rfl⟩ := hx
    exact ⟨f, List.mem_of_mem_take hfm, rfl⟩
  · rw [h, List.mem_append, List.mem_singleton] at hx
    rcases hx with hx | rfl
    · rw [List.mem_map] at hx
      obtain ⟨f', hfm, rfl⟩ := hx
      exact ⟨f', List.mem_of_mem_take hfm, rfl⟩
    · cases hf

/-- an in-progress file consists of whole records followed by at most one partial record -/
theorem C12_open (flush : Bool) (files : List WFile) (hclosed : ∀ f ∈ files.dropLast, f.isOpen = false) (k : Nat)
    (x : DFile) (hx : x ∈ (crashDisk flush files k).files) (hf : x.final = false) :
    ∃ f ∈ files, x.id = f.id ∧ WPP f.members x.content := by
  obtain ⟨n, _, h | ⟨f, c, hn, h, hw⟩⟩ := C12_shape flush files hclosed k
  · rw [h, List.mem_map] at hx
    obtain ⟨f, _, rfl⟩ := hx
    cases hf
  · rw [h, List.mem_append, List.mem_singleton] at hx
    rcases hx with hx | rfl
    · rw [List.mem_map] at hx
      obtain ⟨f', _, rfl⟩ := hx
      cases hf
    · exact ⟨f, List.mem_of_getElem? hn, rfl, hw⟩

/-! ### non-vacuity -/
def exFiles : List WFile :=
  [⟨1, [⟨0, [9, 9], none⟩, ⟨1, [1, 2, 3], some 1⟩], false⟩, ⟨2, [⟨0, [9, 9], none⟩, ⟨2, [4, 5], some 2⟩], true⟩]
example : (crashDisk true exFiles 5).files = [⟨1, [9, 9, 1], false⟩] := by decide
example : (crashDisk true exFiles 14).files = [⟨1, [9, 9, 1, 2, 3], true⟩, ⟨2, [9, 9], false⟩] := by decide
example : ((crashDisk true exFiles 14).acks.map (fun a => (a.file, a.tok, a.off))) = [(1, 1, 2)] := by decide
example : ∀ f ∈ exFiles.dropLast, f.isOpen = false := by decide

/-- the hypothesis of the theorems is the invariant of every reachable writer state: a file is open only while it is
    the current, i.e. newest, one -/
theorem reachable_closed (s : SW) (h : Gowarc.Props.C04.Inv s) : ∀ f ∈ s.files.dropLast, f.isOpen = false := by
  intro f hf
  cases ho : f.isOpen with
  | false => rfl
  | true =>
    exfalso
    have hmem : f ∈ s.files := List.dropLast_subset _ hf
    have hcur := (h.opn f hmem).1 ho
    obtain ⟨hid, hpos, _⟩ := h.cur f.id hcur
    -- ids are 1..serial in order, so the file with id = serial is the last one
    have hord := h.ord
    unfold Gowarc.SW.Ordered at hord
    have hnd : (s.files.map (·.id)).Nodup := by rw [hord]; exact List.nodup_range'
    obtain ⟨n, hn⟩ : ∃ n, s.serial = n + 1 := ⟨s.serial - 1, by omega⟩
    rw [hn] at hord
    obtain ⟨init, l, hfs, hl, hinit⟩ := Gowarc.SW.Ordered.last hord
    rw [hfs, List.dropLast_concat] at hf
    have := (Gowarc.SW.Ordered.mem_le hinit f hf).2
    omega

end Gowarc.Props.C12
