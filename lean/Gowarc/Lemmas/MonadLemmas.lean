import Gowarc.Model.Record
namespace Gowarc

/-! simp lemmas for the validation monad `M` -/

@[simp] theorem M.bind_def {α β} (m : M α) (f : α → M β) (s : St) :
    (m >>= f) s = match m s with
      | (.ok a, s') => f a s'
      | (.error e, s') => (.error e, s') := rfl

@[simp] theorem M.pure_def {α} (a : α) (s : St) : (pure a : M α) s = (.ok a, s) := rfl
@[simp] theorem M.hdr_def (s : St) : M.hdr s = (.ok s.hdr, s) := rfl
@[simp] theorem M.get_def (s : St) : M.get s = (.ok s, s) := rfl
@[simp] theorem M.setHdr_def (h : Fields) (s : St) : M.setHdr h s = (.ok (), { s with hdr := h }) := rfl
@[simp] theorem M.finding_def (t : Tag) (s : St) : M.finding t s = (.ok (), { s with fnd := s.fnd ++ [t] }) := rfl
@[simp] theorem M.addFindings_def (l : List Tag) (s : St) : M.addFindings l s = (.ok (), { s with fnd := s.fnd ++ l }) := rfl
@[simp] theorem M.fail_def {α} (t : Tag) (s : St) : (M.fail t : M α) s = (.error t, s) := rfl
@[simp] theorem site_ignore (t : Tag) (s : St) : site .ignore t s = (.ok (), s) := rfl
@[simp] theorem site_warn (t : Tag) (s : St) : site .warn t s = (.ok (), { s with fnd := s.fnd ++ [t] }) := rfl
@[simp] theorem site_fail (t : Tag) (s : St) : site .fail t s = (.error t, s) := rfl

@[simp] theorem condSite_false (p : Pol) (t : Tag) (s : St) : condSite false p t s = (.ok (), s) := rfl
@[simp] theorem condSite_true (p : Pol) (t : Tag) (s : St) : condSite true p t s = site p t s := rfl
theorem condSite_ignore (c : Bool) (t : Tag) (s : St) : condSite c .ignore t s = (.ok (), s) := by cases c <;> rfl
theorem condSite_warn (c : Bool) (t : Tag) (s : St) :
    condSite c .warn t s = (.ok (), { s with fnd := s.fnd ++ (if c then [t] else []) }) := by cases c <;> simp
theorem condSite_fail (c : Bool) (t : Tag) (s : St) :
    condSite c .fail t s = (if c then (.error t, s) else (.ok (), s)) := by cases c <;> simp

theorem M.bind_pure_id {α} (m : M α) : (m >>= fun b => (pure b : M α)) = m := by
  funext s
  simp only [M.bind_def]
  cases m s with
  | mk r s' => cases r <;> rfl

/-- the second, detecting parse only exists under the ignore syntax policy -/
theorem newWarcFieldsBlock_not_ignore (o : Opts) (c : Bytes) (fault : Bool) (bd : Digest) (h : o.syn ≠ .ignore) :
    newWarcFieldsBlock o c fault bd =
      (condSite fault o.syn .reader >>= fun _ => wfFinish o.blk o.fixWarcFieldsBlockErrors c bd (parseFields o.syn ⟨c, false⟩)) := by
  unfold newWarcFieldsBlock
  have : (o.syn == Pol.ignore) = false := by cases hs : o.syn <;> simp_all
  simp only [this, Bool.and_false, Bool.false_eq_true, ↓reduceIte]
  congr 1
  funext _
  exact M.bind_pure_id _

end Gowarc
