import Gowarc.Lemmas.MonadLemmas
namespace Gowarc

/-! ## Findings are only ever produced under `warn`

`NoFind m`: the computation never adds a finding (whatever it returns). All findings of the model go through `site`,
`M.finding`, `M.addFindings`; under the levels `ignore` and `fail` a site adds nothing (it does nothing, or returns the error). -/

structure NoFind {α} (m : M α) : Prop where
  h : ∀ s, (m s).2.fnd = s.fnd

namespace NoFind

theorem pure {α} (a : α) : NoFind (Pure.pure a : M α) := ⟨fun _ => rfl⟩
theorem fail {α} (t : Tag) : NoFind (M.fail t : M α) := ⟨fun _ => rfl⟩
theorem hdr : NoFind M.hdr := ⟨fun _ => rfl⟩
theorem get : NoFind M.get := ⟨fun _ => rfl⟩
theorem setHdr (h : Fields) : NoFind (M.setHdr h) := ⟨fun _ => rfl⟩
theorem addNil : NoFind (M.addFindings []) := ⟨fun s => by simp⟩

theorem bind {α β} {m : M α} {f : α → M β} (hm : NoFind m) (hf : ∀ a, NoFind (f a)) : NoFind (m >>= f) := by
  constructor
  intro s
  simp only [M.bind_def]
  have h1 := hm.h s
  cases hr : m s with
  | mk r s' =>
    rw [hr] at h1
    cases r with
    | ok a => simp only; rw [(hf a).h s']; exact h1
    | error e => exact h1

theorem ite {α} {c : Prop} [Decidable c] {m1 m2 : M α} (h1 : NoFind m1) (h2 : NoFind m2) :
    NoFind (if c then m1 else m2) := by split <;> assumption

theorem site (p : Pol) (t : Tag) (hp : p ≠ .warn) : NoFind (Gowarc.site p t) := by
  cases p with
  | ignore => exact ⟨fun _ => rfl⟩
  | warn => exact absurd rfl hp
  | fail => exact ⟨fun _ => rfl⟩

theorem condSite (c : Bool) (p : Pol) (t : Tag) (hp : p ≠ .warn) : NoFind (Gowarc.condSite c p t) := by
  unfold Gowarc.condSite; exact ite (site p t hp) (pure ())

theorem condFail (c : Bool) (t : Tag) : NoFind (Gowarc.condFail c t) := by
  unfold Gowarc.condFail; exact ite (fail t) (pure ())

end NoFind

/-! ### header parser -/

def ParseRes.fnd : ParseRes → List Tag
  | .ok _ f _ => f
  | .err _ f => f

def contFnd : Sum (Tag × List Tag) (Bytes × UInt8 × Bool × List Tag × Stream) → List Tag
  | .inl (_, f) => f
  | .inr (_, _, _, f, _) => f

theorem contLoop_nofind (syn : Pol) (hs : syn ≠ .warn) (fuel : Nat) (line : Bytes) (nc : UInt8) (eoh : Bool) (fnd : List Tag) (s : Stream) :
    contFnd (contLoop syn fuel line nc eoh fnd s) = fnd := by
  induction fuel generalizing line nc eoh s with
  | zero => simp [contLoop, contFnd]
  | succ k ih =>
    unfold contLoop
    split
    · split
      · exact ih _ _ _ _
      · split
        · rfl
        · cases syn with
          | fail => rfl
          | warn => exact absurd rfl hs
          | ignore => exact ih _ _ _ _
    · rfl

theorem afterLine_nofind (k : Fields → List Tag → Stream → ParseRes) (hk : ∀ wf fnd s, (k wf fnd s).fnd = fnd)
    (wf : Fields) (fnd : List Tag) (nc : UInt8) (eoh : Bool) (s : Stream) : (afterLine k wf fnd nc eoh s).fnd = fnd := by
  unfold afterLine
  split
  · rfl
  · split
    · rfl
    · rfl
    · exact hk _ _ _

theorem parseRest_nofind (syn : Pol) (hs : syn ≠ .warn) (k : Fields → List Tag → Stream → ParseRes)
    (hk : ∀ wf fnd s, (k wf fnd s).fnd = fnd) (wf : Fields) (fnd : List Tag) (lr : LineRes) (eoh fault : Bool) :
    (parseRest syn k wf fnd lr eoh fault).fnd = fnd := by
  unfold parseRest
  have hc := contLoop_nofind syn hs (lr.rest.length + 1) lr.line lr.nc eoh fnd ⟨lr.rest, fault⟩
  cases hcl : contLoop syn (lr.rest.length + 1) lr.line lr.nc eoh fnd ⟨lr.rest, fault⟩ with
  | inl p => obtain ⟨e, f⟩ := p; rw [hcl] at hc; simpa [ParseRes.fnd, contFnd] using hc
  | inr p =>
    obtain ⟨line, nc, eoh', fnd', s'⟩ := p
    rw [hcl] at hc
    simp only [contFnd] at hc
    subst hc
    simp only
    split
    · cases syn with
      | fail => rfl
      | warn => exact absurd rfl hs
      | ignore => exact afterLine_nofind k hk _ _ _ _ _
    · exact afterLine_nofind k hk _ _ _ _ _

theorem parseLoop_nofind (syn : Pol) (hs : syn ≠ .warn) (fuel : Nat) (wf : Fields) (fnd : List Tag) (s : Stream) :
    (parseLoop syn fuel wf fnd s).fnd = fnd := by
  induction fuel generalizing wf fnd s with
  | zero => rfl
  | succ k ih =>
    unfold parseLoop
    split
    · exact parseRest_nofind _ hs _ ih _ _ _ _ _
    · split
      · rfl
      · split
        · split
          · rfl
          · cases syn with
            | fail => rfl
            | warn => exact absurd rfl hs
            | ignore => exact parseRest_nofind _ hs _ ih _ _ _ _ _
        · cases syn with
          | fail => rfl
          | warn => exact absurd rfl hs
          | ignore => exact parseRest_nofind _ hs _ ih _ _ _ _ _

/-- the header parser reports findings only under the warn policy -/
theorem parseFields_nofind (syn : Pol) (hs : syn ≠ .warn) (s : Stream) : (parseFields syn s).fnd = [] :=
  parseLoop_nofind syn hs _ _ _ _

end Gowarc

namespace Gowarc

/-- no axis is at `warn` (every mixture of ignore and fail) -/
structure NoWarn (o : Opts) : Prop where
  syn : o.syn ≠ .warn
  spec : o.spec ≠ .warn
  unk : o.unk ≠ .warn
  blk : o.blk ≠ .warn

macro "nofind" : tactic => `(tactic| repeat' (with_reducible (first
  | assumption
  | exact NoFind.hdr
  | exact NoFind.get
  | exact NoFind.addNil
  | apply NoFind.pure
  | apply NoFind.fail
  | apply NoFind.setHdr
  | (apply NoFind.site; assumption)
  | (apply NoFind.condSite; assumption)
  | apply NoFind.bind
  | apply NoFind.ite
  | intro _)))

theorem resolveRecordType_nofind (o : Opts) (h : NoWarn o) : NoFind (resolveRecordType o) := by
  have h1 := h.spec; have h2 := h.unk
  unfold resolveRecordType; nofind

theorem validateFieldsLoop_nofind (o : Opts) (Ω : Oracles) (v rt : Nat) (h : NoWarn o) (l : Fields) :
    NoFind (validateFieldsLoop o Ω v rt l) := by
  have h1 := h.spec
  induction l with
  | nil => unfold validateFieldsLoop; nofind
  | cons nv rest ih => obtain ⟨n, w⟩ := nv; unfold validateFieldsLoop; nofind

theorem requiredLoop_nofind (o : Opts) (h : NoWarn o) (l : List String) : NoFind (requiredLoop o l) := by
  have h1 := h.spec
  induction l with
  | nil => unfold requiredLoop; nofind
  | cons x rest ih => unfold requiredLoop; nofind

theorem validateSpec_nofind (o : Opts) (Ω : Oracles) (v rt : Nat) (h : NoWarn o) : NoFind (validateSpec o Ω v rt) := by
  have h1 := h.spec
  unfold validateSpec
  nofind
  · exact validateFieldsLoop_nofind o Ω v rt h _
  · exact requiredLoop_nofind o h _

theorem validateHeader_nofind (o : Opts) (Ω : Oracles) (v : Nat) (h : NoWarn o) : NoFind (validateHeader o Ω v) := by
  unfold validateHeader
  have h0 := resolveRecordType_nofind o h
  nofind
  exact validateSpec_nofind o Ω v _ h

end Gowarc

namespace Gowarc

macro "nofind'" : tactic => `(tactic| repeat' (with_reducible (first
  | assumption
  | exact NoFind.hdr
  | exact NoFind.get
  | exact NoFind.addNil
  | apply NoFind.pure
  | apply NoFind.fail
  | apply NoFind.setHdr
  | (apply NoFind.site; assumption)
  | (apply NoFind.condSite; assumption)
  | apply NoFind.condFail
  | apply NoFind.bind
  | apply NoFind.ite
  | intro _
  | split)))

theorem digestFromField_nofind (o : Opts) (f : Bytes) : NoFind (digestFromField o f) := by
  unfold digestFromField; nofind'

theorem newHttpBlock_nofind (o : Opts) (Ω : Oracles) (c : Bytes) (bd pd : Digest) (h : NoWarn o) :
    NoFind (newHttpBlock o Ω c bd pd) := by
  have h1 := h.syn; have h2 := h.blk
  unfold newHttpBlock; nofind'

theorem wfReport_nofind (blk : Pol) (inner : List Tag) (h : blk ≠ .warn) : NoFind (wfReport blk inner) := by
  unfold wfReport
  cases blk with
  | ignore => exact NoFind.pure _
  | warn => exact absurd rfl h
  | fail => exact NoFind.condFail _ _

theorem wfFinish_nofind (blk : Pol) (fixWf : Bool) (c : Bytes) (bd : Digest) (res : ParseRes) (h : blk ≠ .warn) :
    NoFind (wfFinish blk fixWf c bd res) := by
  unfold wfFinish
  have := wfReport_nofind blk res.findings h
  nofind'

theorem newWarcFieldsBlock_nofind (o : Opts) (c : Bytes) (fault : Bool) (bd : Digest) (h : NoWarn o) :
    NoFind (newWarcFieldsBlock o c fault bd) := by
  have h1 := h.syn; have h2 := h.blk
  unfold newWarcFieldsBlock
  nofind'
  exact wfFinish_nofind _ _ _ _ _ h2

theorem parseBlock_nofind (o : Opts) (Ω : Oracles) (rt : Nat) (c : Bytes) (fault : Bool) (h : NoWarn o) :
    NoFind (parseBlock o Ω rt c fault) := by
  unfold parseBlock
  have := digestFromField_nofind o
  nofind'
  all_goals first
    | exact digestFromField_nofind o _
    | exact newHttpBlock_nofind o Ω _ _ _ h
    | exact newWarcFieldsBlock_nofind o _ _ _ h

section
variable (H : Alg → Bytes → Bytes)

theorem checkDigest_nofind (o : Opts) (f : Bytes) (t : Tag) (d : Digest) (data : Bytes) (h : NoWarn o) :
    NoFind (checkDigest H o f t d data) := by
  have h1 := h.spec
  unfold checkDigest; nofind'

theorem validateDigest_nofind (o : Opts) (rt : Nat) (b : Block) (fault : Bool) (h : NoWarn o) :
    NoFind (validateDigest H o rt b fault) := by
  have h1 := h.spec
  unfold validateDigest
  nofind'
  all_goals first | exact checkDigest_nofind H o _ _ _ _ h

theorem versionOf_nofind (o : Opts) (txt : Bytes) (h : NoWarn o) : NoFind (versionOf o txt) := by
  have h1 := h.spec
  unfold versionOf; nofind'

theorem addFindings_of_parse_err (syn : Pol) (s : Stream) (t : Tag) (fnd : List Tag)
    (hp : parseFields syn s = .err t fnd) (hs : syn ≠ .warn) : NoFind (M.addFindings fnd) := by
  have := parseFields_nofind syn hs s
  rw [hp] at this; simp only [ParseRes.fnd] at this; subst this; exact NoFind.addNil

theorem addFindings_of_parse_ok (syn : Pol) (s : Stream) (fs : Fields) (fnd : List Tag) (s' : Stream)
    (hp : parseFields syn s = .ok fs fnd s') (hs : syn ≠ .warn) : NoFind (M.addFindings fnd) := by
  have := parseFields_nofind syn hs s
  rw [hp] at this; simp only [ParseRes.fnd] at this; subst this; exact NoFind.addNil

theorem unmarshalTail_nofind (o : Opts) (Ω : Oracles) (vt : Bytes) (vi : Nat) (fs : Fields) (s' : Stream) (h : NoWarn o) :
    NoFind (unmarshalTail H o Ω vt vi fs s') := by
  have h2 := h.spec
  unfold unmarshalTail
  nofind'
  all_goals first
    | exact validateHeader_nofind o Ω _ h
    | exact parseBlock_nofind o Ω _ _ _ h
    | exact validateDigest_nofind H o _ _ _ h

theorem unmarshalRest_nofind (o : Opts) (Ω : Oracles) (vt : Bytes) (vi : Nat) (res : ParseRes) (h : NoWarn o)
    (hres : res.fnd = []) : NoFind (unmarshalRest H o Ω vt vi res) := by
  unfold unmarshalRest
  cases res with
  | err t fnd => simp only [ParseRes.fnd] at hres; subst hres; nofind'
  | ok fs fnd s' =>
    simp only [ParseRes.fnd] at hres; subst hres
    have := unmarshalTail_nofind H o Ω vt vi fs s' h
    nofind'

theorem unmarshalBody_nofind (o : Opts) (Ω : Oracles) (s : Stream) (vl : Bytes) (h : NoWarn o) :
    NoFind (unmarshalBody H o Ω s vl) := by
  have h1 := h.syn
  unfold unmarshalBody
  nofind'
  · exact versionOf_nofind o _ h
  · exact unmarshalRest_nofind H o Ω _ _ _ h (parseFields_nofind o.syn h.syn s)

theorem gzFinish_fnd (r : URes) (bad : Bool) (rest : Bytes) : (gzFinish r bad rest).fnd = r.fnd := by
  unfold gzFinish; split
  · rfl
  · split <;> rfl

/-- **no finding unless an axis is at warn** — Unmarshal -/
theorem unmarshal_nofind (o : Opts) (Ω : Oracles) (s : Stream) (h : NoWarn o) : (unmarshal H o Ω s).fnd = [] := by
  have body : ∀ off (after : Stream), (unmarshalAfterMagic H o Ω off [] after).fnd = [] := by
    intro off after
    unfold unmarshalAfterMagic
    split
    · rfl
    · have := (unmarshalBody_nofind H o Ω ⟨(readBytesNL after.rest).2.1, after.fault⟩ (readBytesNL after.rest).1 h).h ⟨[], []⟩
      cases hb : unmarshalBody H o Ω ⟨(readBytesNL after.rest).2.1, after.fault⟩ (readBytesNL after.rest).1 ⟨[], []⟩ with
      | mk r st =>
        rw [hb] at this
        cases r with
        | ok p => obtain ⟨r', rest⟩ := p; simpa using this
        | error t => simpa using this
  unfold unmarshal
  split
  · split <;> rfl
  · split
    · rfl
    · rename_i off atMagic hsk hnf
      have hf0 : (if (o.syn != Pol.ignore && off != 0) = true then [Tag.synJunk] else ([] : List Tag)) = [] := by
        cases hsyn : o.syn with
        | ignore => simp
        | warn => exact absurd hsyn h.syn
        | fail =>
          have : ¬ (off > 0) := by
            intro hoff; apply hnf; simp [hsyn, hoff]
          have : off = 0 := by omega
          simp [this]
      simp only [hf0]
      split
      · split
        · rfl
        · rfl
        · split
          · rfl
          · split
            · rfl
            · rw [gzFinish_fnd]; exact body off _
      · exact body off _

/-- **no finding unless an axis is at warn** — Build -/
theorem buildBody_nofind (o : Opts) (Ω : Oracles) (vt : Bytes) (vi rt0 : Nat) (cla : Bool) (c : Bytes) (h : NoWarn o) :
    NoFind (buildBody H o Ω vt vi rt0 cla c) := by
  unfold buildBody
  nofind'
  all_goals first
    | exact validateHeader_nofind o Ω _ h
    | exact parseBlock_nofind o Ω _ _ _ h
    | exact validateDigest_nofind H o _ _ _ h

theorem build_nofind (o : Opts) (Ω : Oracles) (vt : Bytes) (vi rt0 : Nat) (hdr : Fields) (c id : Bytes) (h : NoWarn o) :
    (build H o Ω vt vi rt0 hdr c id).fnd = [] := by
  unfold build
  simp only
  generalize (o.addMissingContentLength && !Fields.has (if (o.addMissingRecordId && !Fields.has hdr (bs "WARC-Record-ID")) = true then
      Fields.setId hdr (bs "WARC-Record-ID") id else hdr) (bs "Content-Length")) = cla
  generalize (if cla = true then _ else _ : Fields) = hdr2
  have := (buildBody_nofind H o Ω vt vi rt0 cla c h).h ⟨hdr2, []⟩
  revert this
  cases buildBody H o Ω vt vi rt0 cla c ⟨hdr2, []⟩ with
  | mk r st => cases r <;> (intro h'; simpa using h')

end
end Gowarc
