import Gowarc.Model.Fields
import Gowarc.Spec.MultiMap
namespace Gowarc
open Fields

/-! ### setLoop -/

theorem setLoop_true (name value : Bytes) (fs : Fields) :
    setLoop name value fs true = (fs.filter (fun p => p.1 ≠ name), true) := by
  induction fs with
  | nil => simp [setLoop]
  | cons h t ih =>
    obtain ⟨n, v⟩ := h
    by_cases hn : n = name
    · subst hn; simp [setLoop, ih]
    · simp [setLoop, hn, ih]

theorem setLoop_false_snd (name value : Bytes) (fs : Fields) :
    (setLoop name value fs false).2 = fs.any (fun p => p.1 == name) := by
  induction fs with
  | nil => simp [setLoop]
  | cons h t ih =>
    obtain ⟨n, v⟩ := h
    by_cases hn : n = name
    · subst hn; simp [setLoop, setLoop_true]
    · simp [setLoop, hn, ih]

theorem set_eq_spec_aux (k v : Bytes) (fs : Fields) :
    (if (setLoop k v fs false).2 then (setLoop k v fs false).1 else (setLoop k v fs false).1 ++ [(k, v)])
      = Spec.MM.set fs k v := by
  induction fs with
  | nil => simp [setLoop, Spec.MM.set]
  | cons h t ih =>
    obtain ⟨n, w⟩ := h
    by_cases hn : n = k
    · subst hn; simp [setLoop, setLoop_true, Spec.MM.set]
    · simp only [setLoop, bne_iff_ne, ne_eq, hn, not_false_eq_true, ↓reduceIte, Spec.MM.set]
      rw [← ih]
      split <;> simp

/-! ### insertion sort -/

theorem bytesLt_irrefl (a : Bytes) : bytesLt a a = false := by
  induction a with
  | nil => rfl
  | cons x xs ih => simp [bytesLt, ih]

theorem filter_insertSorted_eq (nv : NV) (k : Bytes) (l : Fields) (hk : nv.1 = k)
    (hl : ∀ p ∈ l, p.1 = k → bytesLt p.1 nv.1 = false) :
    (insertSorted nv l).filter (fun p => p.1 = k) = nv :: l.filter (fun p => p.1 = k) := by
  induction l with
  | nil => simp [insertSorted, hk]
  | cons h t ih =>
    unfold insertSorted
    by_cases hlt : bytesLt h.1 nv.1 = true
    · have hne : ¬ h.1 = k := by
        intro he
        have := hl h (by simp) he
        rw [this] at hlt; exact absurd hlt (by simp)
      simp only [hlt, ↓reduceIte]
      rw [List.filter_cons, List.filter_cons]
      simp only [hne, decide_false]
      exact ih (fun p hp => hl p (by simp [hp]))
    · simp only [hlt]
      simp [hk]

theorem filter_insertSorted_ne (nv : NV) (k : Bytes) (l : Fields) (hk : nv.1 ≠ k) :
    (insertSorted nv l).filter (fun p => p.1 = k) = l.filter (fun p => p.1 = k) := by
  induction l with
  | nil => simp [insertSorted, hk]
  | cons h t ih =>
    unfold insertSorted
    split
    · rw [List.filter_cons, List.filter_cons, ih]
    · simp [hk]

theorem sort_cons (nv : NV) (l : Fields) : Fields.sort (nv :: l) = insertSorted nv (Fields.sort l) := rfl

theorem mem_insertSorted (nv p : NV) (l : Fields) : p ∈ insertSorted nv l ↔ p = nv ∨ p ∈ l := by
  induction l with
  | nil => simp [insertSorted]
  | cons h t ih =>
    unfold insertSorted
    split
    · simp [ih]; constructor
      · rintro (h1 | h1 | h1) <;> simp [h1]
      · rintro (h1 | h1 | h1) <;> simp [h1]
    · simp

theorem mem_sort (p : NV) (l : Fields) : p ∈ Fields.sort l ↔ p ∈ l := by
  induction l with
  | nil => simp [Fields.sort]
  | cons h t ih => rw [sort_cons, mem_insertSorted, ih]; simp

theorem perm_insertSorted (nv : NV) (l : Fields) : (insertSorted nv l).Perm (nv :: l) := by
  induction l with
  | nil => simp [insertSorted]
  | cons h t ih =>
    unfold insertSorted
    split
    · exact (List.Perm.cons h ih).trans (List.Perm.swap nv h t)
    · exact List.Perm.refl _

theorem perm_sort (l : Fields) : (Fields.sort l).Perm l := by
  induction l with
  | nil => exact List.Perm.refl _
  | cons h t ih => rw [sort_cons]; exact (perm_insertSorted h _).trans (List.Perm.cons h ih)

/-- no element is followed (anywhere later) by a strictly smaller name -/
def SortedByName (l : Fields) : Prop := l.Pairwise (fun a b => bytesLt b.1 a.1 = false)

theorem bytesLt_trans {a b c : Bytes} : bytesLt a b = true → bytesLt b c = true → bytesLt a c = true := by
  induction a generalizing b c with
  | nil =>
    cases b with
    | nil => simp [bytesLt]
    | cons y ys => cases c with
      | nil => simp [bytesLt]
      | cons z zs => simp [bytesLt]
  | cons x xs ih =>
    cases b with
    | nil => simp [bytesLt]
    | cons y ys => cases c with
      | nil => simp [bytesLt]
      | cons z zs =>
        simp only [bytesLt, Bool.or_eq_true, decide_eq_true_eq, Bool.and_eq_true, beq_iff_eq]
        rintro (h1 | ⟨h1, h1'⟩) (h2 | ⟨h2, h2'⟩)
        · left; exact UInt8.lt_trans h1 h2
        · left; rw [← h2]; exact h1
        · left; rw [h1]; exact h2
        · right; exact ⟨h1.trans h2, ih h1' h2'⟩

theorem bytesLt_asymm {a b : Bytes} : bytesLt a b = true → bytesLt b a = false := by
  intro h
  cases hb : bytesLt b a with
  | false => rfl
  | true => have := bytesLt_trans h hb; rw [bytesLt_irrefl] at this; exact absurd this (by simp)

theorem bytesLt_total {a b : Bytes} : bytesLt a b = false → bytesLt b a = false → a = b := by
  induction a generalizing b with
  | nil => cases b with
    | nil => simp
    | cons y ys => simp [bytesLt]
  | cons x xs ih => cases b with
    | nil => simp [bytesLt]
    | cons y ys =>
      simp only [bytesLt, Bool.or_eq_false_iff, decide_eq_false_iff_not, Bool.and_eq_false_iff, beq_eq_false_iff_ne,
        List.cons.injEq]
      rintro ⟨h1, h1'⟩ ⟨h2, h2'⟩
      have hxy : x = y := by
        have := UInt8.le_antisymm (UInt8.not_lt.mp h2) (UInt8.not_lt.mp h1)
        exact this
      subst hxy
      simp only [ne_eq, not_true_eq_false, false_or] at h1' h2'
      exact ⟨rfl, ih h1' h2'⟩

/-- `¬ (b < a)` is transitive (it is `a ≤ b` of a total order) -/
theorem notLt_trans {a b c : Bytes} : bytesLt b a = false → bytesLt c b = false → bytesLt c a = false := by
  intro h1 h2
  cases h : bytesLt c a with
  | false => rfl
  | true =>
    -- c < a, ¬ b < a, ¬ c < b : if a < b or a = b ... derive contradiction
    cases hab : bytesLt a b with
    | true => have := bytesLt_trans h hab; rw [h2] at this; exact absurd this (by simp)
    | false => have := bytesLt_total hab h1; subst this; rw [h] at h2; exact absurd h2 (by simp)

theorem sorted_insertSorted (nv : NV) (l : Fields) (hl : SortedByName l) : SortedByName (insertSorted nv l) := by
  induction l with
  | nil => simp [insertSorted, SortedByName]
  | cons h t ih =>
    unfold insertSorted
    unfold SortedByName at hl ih ⊢
    rw [List.pairwise_cons] at hl
    split
    · rename_i hlt
      rw [List.pairwise_cons]
      refine ⟨?_, ih hl.2⟩
      intro p hp
      rw [mem_insertSorted] at hp
      rcases hp with rfl | hp
      · exact bytesLt_asymm hlt
      · exact hl.1 p hp
    · rename_i hlt
      have hlt' : bytesLt h.1 nv.1 = false := by simpa using hlt
      rw [List.pairwise_cons]
      refine ⟨?_, List.pairwise_cons.mpr hl⟩
      intro p hp
      rcases List.mem_cons.mp hp with rfl | hp
      · exact hlt'
      · exact notLt_trans hlt' (hl.1 p hp)

theorem sorted_sort (l : Fields) : SortedByName (Fields.sort l) := by
  induction l with
  | nil => simp [Fields.sort, SortedByName]
  | cons h t ih => rw [sort_cons]; exact sorted_insertSorted h _ ih

theorem sort_stable (l : Fields) (k : Bytes) :
    (Fields.sort l).filter (fun p => p.1 = k) = l.filter (fun p => p.1 = k) := by
  induction l with
  | nil => simp [Fields.sort]
  | cons h t ih =>
    rw [sort_cons]
    by_cases hk : h.1 = k
    · rw [filter_insertSorted_eq h k _ hk, ih]
      · simp [hk]
      · intro p _ hp; rw [hp, hk]; exact bytesLt_irrefl k
    · rw [filter_insertSorted_ne h k _ hk, ih]; simp [hk]

end Gowarc
