/-
  base32 (RFC 4648 standard alphabet, padded): decoding inverts encoding, for every byte string.
-/
import Gowarc.Lemmas.Base64
namespace Gowarc

theorem b32Val_char : ∀ n : UInt8, n < 32 → b32Val (b32Char n) = some n := by decide
theorem shr3_lt32 : ∀ a : UInt8, a >>> 3 < 32 := by decide
theorem and31_lt32 : ∀ a : UInt8, a &&& 31 < 32 := by decide
theorem b32Char_ne_pad : ∀ n : UInt8, n < 32 → (b32Char n == 61) = false := by decide
theorem b32Char_not_nl : ∀ n : UInt8, n < 32 → (b32Char n != 13 && b32Char n != 10) = true := by decide

/-! the five bytes out of the eight 5-bit values -/
theorem b32_byte0 (a b : UInt8) : (a >>> 3) <<< 3 ||| ((a <<< 2 ||| b >>> 6) &&& 31) >>> 2 = a := by bits
theorem b32_byte1 (a b c : UInt8) :
    ((a <<< 2 ||| b >>> 6) &&& 31) <<< 6 ||| ((b >>> 1) &&& 31) <<< 1 ||| ((b <<< 4 ||| c >>> 4) &&& 31) >>> 4 = b := by bits
theorem b32_byte2 (b c d : UInt8) : ((b <<< 4 ||| c >>> 4) &&& 31) <<< 4 ||| ((c <<< 1 ||| d >>> 7) &&& 31) >>> 1 = c := by bits
theorem b32_byte3 (c d e : UInt8) :
    ((c <<< 1 ||| d >>> 7) &&& 31) <<< 7 ||| ((d >>> 2) &&& 31) <<< 2 ||| ((d <<< 3 ||| e >>> 5) &&& 31) >>> 3 = d := by bits
theorem b32_byte4 (d e : UInt8) : ((d <<< 3 ||| e >>> 5) &&& 31) <<< 5 ||| (e &&& 31) = e := by bits

theorem b32Group5 (a b c d e : UInt8) :
    b32Group [a, b, c, d, e] = [b32Char (a >>> 3), b32Char ((a <<< 2 ||| b >>> 6) &&& 31), b32Char ((b >>> 1) &&& 31),
      b32Char ((b <<< 4 ||| c >>> 4) &&& 31), b32Char ((c <<< 1 ||| d >>> 7) &&& 31), b32Char ((d >>> 2) &&& 31),
      b32Char ((d <<< 3 ||| e >>> 5) &&& 31), b32Char (e &&& 31)] := by
  simp [b32Group]

theorem b32Quantum_full (q0 q1 q2 q3 q4 q5 q6 q7 : UInt8) (h0 : q0 < 32) (h1 : q1 < 32) (h2 : q2 < 32) (h3 : q3 < 32)
    (h4 : q4 < 32) (h5 : q5 < 32) (h6 : q6 < 32) (h7 : q7 < 32) (rest : Bytes) :
    b32Quantum (b32Char q0 :: b32Char q1 :: b32Char q2 :: b32Char q3 :: b32Char q4 :: b32Char q5 :: b32Char q6 :: b32Char q7 :: rest) 0 [] =
      some (b32Pack [q0, q1, q2, q3, q4, q5, q6, q7] 8, rest, false) := by
  simp [b32Quantum, b32Val_char _ h0, b32Val_char _ h1, b32Val_char _ h2, b32Val_char _ h3, b32Val_char _ h4, b32Val_char _ h5,
    b32Val_char _ h6, b32Val_char _ h7, b32Char_ne_pad _ h0, b32Char_ne_pad _ h1, b32Char_ne_pad _ h2, b32Char_ne_pad _ h3,
    b32Char_ne_pad _ h4, b32Char_ne_pad _ h5, b32Char_ne_pad _ h6, b32Char_ne_pad _ h7]

theorem b32Pack_full (a b c d e : UInt8) :
    b32Pack [a >>> 3, (a <<< 2 ||| b >>> 6) &&& 31, (b >>> 1) &&& 31, (b <<< 4 ||| c >>> 4) &&& 31, (c <<< 1 ||| d >>> 7) &&& 31,
      (d >>> 2) &&& 31, (d <<< 3 ||| e >>> 5) &&& 31, e &&& 31] 8 = [a, b, c, d, e] := by
  simp [b32Pack, b32_byte0, b32_byte1, b32_byte2, b32_byte3, b32_byte4]

theorem b32Val_pad : b32Val 61 = none := by decide
theorem b32_t1 (a : UInt8) : a >>> 3 <<< 3 ||| (a <<< 2 &&& 31) >>> 2 = a := by bits
theorem b32_t2 (a b : UInt8) : ((a <<< 2 ||| b >>> 6) &&& 31) <<< 6 ||| (b >>> 1 &&& 31) <<< 1 ||| (b <<< 4 &&& 31) >>> 4 = b := by bits
theorem b32_t3 (b c : UInt8) : ((b <<< 4 ||| c >>> 4) &&& 31) <<< 4 ||| (c <<< 1 &&& 31) >>> 1 = c := by bits
theorem b32_t4 (c d : UInt8) : ((c <<< 1 ||| d >>> 7) &&& 31) <<< 7 ||| (d >>> 2 &&& 31) <<< 2 ||| (d <<< 3 &&& 31) >>> 3 = d := by bits

theorem b32Quantum_tail1 (a : UInt8) : b32Quantum (b32Group [a]) 0 [] = some ([a], [61, 61, 61, 61, 61], true) := by
  simp [b32Group, b32Quantum, b32Val_char _ (shr3_lt32 a), b32Val_char _ (and31_lt32 _), b32Char_ne_pad _ (shr3_lt32 a),
    b32Char_ne_pad _ (and31_lt32 _), b32Pack, b32_t1]

theorem b32Quantum_tail2 (a b : UInt8) : b32Quantum (b32Group [a, b]) 0 [] = some ([a, b], [61, 61, 61], true) := by
  simp [b32Group, b32Quantum, b32Val_char _ (shr3_lt32 a), b32Val_char _ (and31_lt32 _), b32Char_ne_pad _ (shr3_lt32 a),
    b32Char_ne_pad _ (and31_lt32 _), b32Pack, b32_byte0, b32_t2]

theorem b32Quantum_tail3 (a b c : UInt8) : b32Quantum (b32Group [a, b, c]) 0 [] = some ([a, b, c], [61, 61], true) := by
  simp [b32Group, b32Quantum, b32Val_char _ (shr3_lt32 a), b32Val_char _ (and31_lt32 _), b32Char_ne_pad _ (shr3_lt32 a),
    b32Char_ne_pad _ (and31_lt32 _), b32Pack, b32_byte0, b32_byte1, b32_t3]

theorem b32Quantum_tail4 (a b c d : UInt8) : b32Quantum (b32Group [a, b, c, d]) 0 [] = some ([a, b, c, d], [], true) := by
  simp [b32Group, b32Quantum, b32Val_char _ (shr3_lt32 a), b32Val_char _ (and31_lt32 _), b32Char_ne_pad _ (shr3_lt32 a),
    b32Char_ne_pad _ (and31_lt32 _), b32Pack, b32_byte0, b32_byte1, b32_byte2, b32_t4]

theorem b32Enc_no_nl (b : Bytes) : (b32Enc b).filter (fun x => x != 13 && x != 10) = b32Enc b := by
  rw [List.filter_eq_self]
  fun_induction b32Enc b with
  | case1 => intro x hx; cases hx
  | case2 a b c d e rest ih =>
    intro x hx
    rw [b32Group5] at hx
    simp only [List.cons_append, List.nil_append, List.mem_cons] at hx
    rcases hx with h | h | h | h | h | h | h | h | h
    all_goals first
      | (subst h; first | exact b32Char_not_nl _ (shr3_lt32 _) | exact b32Char_not_nl _ (and31_lt32 _))
      | exact ih x h
  | case3 g h1 h2 =>
    intro x hx
    match g, h1, h2 with
    | [], h1, _ => exact absurd rfl h1
    | [a], _, _ =>
      simp [b32Group] at hx
      rcases hx with h | h | h <;> subst h <;> first | exact b32Char_not_nl _ (shr3_lt32 _) | exact b32Char_not_nl _ (and31_lt32 _) | decide
    | [a, b], _, _ =>
      simp [b32Group] at hx
      rcases hx with h | h | h | h | h <;> subst h <;> first | exact b32Char_not_nl _ (shr3_lt32 _) | exact b32Char_not_nl _ (and31_lt32 _) | decide
    | [a, b, c], _, _ =>
      simp [b32Group] at hx
      rcases hx with h | h | h | h | h | h <;> subst h <;> first | exact b32Char_not_nl _ (shr3_lt32 _) | exact b32Char_not_nl _ (and31_lt32 _) | decide
    | [a, b, c, d], _, _ =>
      simp [b32Group] at hx
      rcases hx with h | h | h | h | h | h | h | h <;> subst h <;> first | exact b32Char_not_nl _ (shr3_lt32 _) | exact b32Char_not_nl _ (and31_lt32 _) | decide
    | a :: b :: c :: d :: e :: rest, _, h2 => exact absurd rfl (h2 a b c d e rest)

theorem b32DecLoop_enc (b : Bytes) : ∀ fuel, (b32Enc b).length < fuel → b32DecLoop fuel (b32Enc b) = some b := by
  fun_induction b32Enc b with
  | case1 => intro fuel h; cases fuel <;> simp [b32DecLoop] at h ⊢
  | case2 a b c d e rest ih =>
    intro fuel h
    cases fuel with
    | zero => omega
    | succ f =>
      rw [b32Group5] at h ⊢
      simp only [List.cons_append, List.nil_append, List.length_cons] at h
      simp only [b32DecLoop, List.cons_append, List.nil_append, List.isEmpty_cons, Bool.false_eq_true, ↓reduceIte]
      rw [b32Quantum_full _ _ _ _ _ _ _ _ (shr3_lt32 a) (and31_lt32 _) (and31_lt32 _) (and31_lt32 _) (and31_lt32 _) (and31_lt32 _)
        (and31_lt32 _) (and31_lt32 _), b32Pack_full]
      simp only [Bool.false_eq_true, ↓reduceIte]
      rw [ih f (by omega)]
      rfl
  | case3 g h1 h2 =>
    intro fuel h
    cases fuel with
    | zero => omega
    | succ f =>
      match g, h1, h2 with
      | [], h1, _ => exact absurd rfl h1
      | [a], _, _ =>
        have hne : (b32Group [a]).isEmpty = false := by simp [b32Group]
        simp only [b32DecLoop, hne, Bool.false_eq_true, ↓reduceIte, b32Quantum_tail1]
      | [a, b], _, _ =>
        have hne : (b32Group [a, b]).isEmpty = false := by simp [b32Group]
        simp only [b32DecLoop, hne, Bool.false_eq_true, ↓reduceIte, b32Quantum_tail2]
      | [a, b, c], _, _ =>
        have hne : (b32Group [a, b, c]).isEmpty = false := by simp [b32Group]
        simp only [b32DecLoop, hne, Bool.false_eq_true, ↓reduceIte, b32Quantum_tail3]
      | [a, b, c, d], _, _ =>
        have hne : (b32Group [a, b, c, d]).isEmpty = false := by simp [b32Group]
        simp only [b32DecLoop, hne, Bool.false_eq_true, ↓reduceIte, b32Quantum_tail4]
      | a :: b :: c :: d :: e :: rest, _, h2 => exact absurd rfl (h2 a b c d e rest)

/-- **base32 decoding inverts encoding, for every byte string** -/
theorem b32_roundtrip (b : Bytes) : b32Dec (b32Enc b) = some b := by
  unfold b32Dec
  rw [b32Enc_no_nl]
  exact b32DecLoop_enc b _ (Nat.lt_succ_self _)

end Gowarc
