import Gowarc.Lemmas.PolicyLemmas
import Gowarc.Lemmas.StreamLemmas
namespace Gowarc

/-! ## Validation observes: with the repair options off no step rewrites the header -/

structure KeepHdr {α} (m : M α) : Prop where
  h : ∀ s, (m s).2.hdr = s.hdr

namespace KeepHdr

theorem pure {α} (a : α) : KeepHdr (Pure.pure a : M α) := ⟨fun _ => rfl⟩
theorem fail {α} (t : Tag) : KeepHdr (M.fail t : M α) := ⟨fun _ => rfl⟩
theorem hdr : KeepHdr M.hdr := ⟨fun _ => rfl⟩
theorem finding (t : Tag) : KeepHdr (M.finding t) := ⟨fun _ => rfl⟩
theorem addFindings (l : List Tag) : KeepHdr (M.addFindings l) := ⟨fun _ => rfl⟩

theorem bind {α β} {m : M α} {f : α → M β} (hm : KeepHdr m) (hf : ∀ a, KeepHdr (f a)) : KeepHdr (m >>= f) := by
  constructor
  intro s
  simp only [M.bind_def]
  have h1 := hm.h s
  cases hr : m s with
  | mk r s' =>
    rw [hr] at h1
    cases r with
    | ok a => simp only; rw [(hf a).h s']; exact h1
    | error e => exact h1

theorem ite {α} {c : Prop} [Decidable c] {m1 m2 : M α} (h1 : KeepHdr m1) (h2 : KeepHdr m2) :
    KeepHdr (if c then m1 else m2) := by split <;> assumption

theorem site (p : Pol) (t : Tag) : KeepHdr (Gowarc.site p t) := by
  cases p <;> exact ⟨fun _ => rfl⟩

theorem condSite (c : Bool) (p : Pol) (t : Tag) : KeepHdr (Gowarc.condSite c p t) := by
  unfold Gowarc.condSite; exact ite (site p t) (pure ())

theorem condFail (c : Bool) (t : Tag) : KeepHdr (Gowarc.condFail c t) := by
  unfold Gowarc.condFail; exact ite (fail t) (pure ())

/-- reading the header and writing the same value back -/
theorem hdr_setSame {β} (k : M β) (hk : KeepHdr k) : KeepHdr (M.hdr >>= fun h => M.setHdr h >>= fun _ => k) :=
  ⟨fun s => by simp only [M.bind_def, M.hdr_def, M.setHdr_def]; exact hk.h _⟩

end KeepHdr

macro "keephdr" : tactic => `(tactic| repeat' (first
  | assumption
  | exact KeepHdr.hdr
  | exact KeepHdr.pure _
  | exact KeepHdr.fail _
  | exact KeepHdr.site _ _
  | exact KeepHdr.condSite _ _ _
  | exact KeepHdr.condFail _ _
  | exact KeepHdr.finding _
  | exact KeepHdr.addFindings _
  | with_reducible apply KeepHdr.hdr_setSame
  | with_reducible apply KeepHdr.bind
  | with_reducible apply KeepHdr.ite
  | intro _
  | with_reducible split))

theorem resolveRecordType_keep (o : Opts) : KeepHdr (resolveRecordType o) := by unfold resolveRecordType; keephdr

theorem validateFieldsLoop_keep (o : Opts) (Ω : Oracles) (v rt : Nat) (l : Fields) : KeepHdr (validateFieldsLoop o Ω v rt l) := by
  induction l with
  | nil => unfold validateFieldsLoop; keephdr
  | cons nv rest ih => obtain ⟨n, w⟩ := nv; unfold validateFieldsLoop; keephdr

theorem requiredLoop_keep (o : Opts) (l : List String) : KeepHdr (requiredLoop o l) := by
  induction l with
  | nil => unfold requiredLoop; keephdr
  | cons x rest ih => unfold requiredLoop; keephdr

theorem validateSpec_keep (o : Opts) (Ω : Oracles) (v rt : Nat) : KeepHdr (validateSpec o Ω v rt) := by
  unfold validateSpec
  keephdr
  · exact validateFieldsLoop_keep o Ω v rt _
  · exact requiredLoop_keep o _

/-- **header validation never alters a field** (under any policy) -/
theorem validateHeader_keep (o : Opts) (Ω : Oracles) (v : Nat) : KeepHdr (validateHeader o Ω v) := by
  unfold validateHeader
  have := resolveRecordType_keep o
  keephdr
  exact validateSpec_keep o Ω v _

/-- the repair / add-missing options that may rewrite header fields are all off -/
structure RepairsOff (o : Opts) : Prop where
  fixCL : o.fixContentLength = false
  fixDig : o.fixDigest = false
  fixSyn : o.fixSyntaxErrors = false
  addDig : o.addMissingDigest = false

theorem digestFromField_keep (o : Opts) (f : Bytes) : KeepHdr (digestFromField o f) := by
  unfold digestFromField; keephdr

theorem newHttpBlock_keep (o : Opts) (Ω : Oracles) (c : Bytes) (bd pd : Digest) (h : RepairsOff o) :
    KeepHdr (newHttpBlock o Ω c bd pd) := by
  unfold newHttpBlock
  simp only [h.fixSyn, Bool.and_false, Bool.false_and, Bool.false_eq_true, ↓reduceIte]
  keephdr

theorem wfFindings_keep (l : List Tag) : KeepHdr (wfFindings l) := by
  induction l with
  | nil => unfold wfFindings; keephdr
  | cons x rest ih => unfold wfFindings; keephdr

theorem newWarcFieldsBlock_keep (o : Opts) (c : Bytes) (fault : Bool) (bd : Digest) : KeepHdr (newWarcFieldsBlock o c fault bd) := by
  unfold newWarcFieldsBlock wfFinish wfReport
  keephdr
  exact wfFindings_keep _

theorem parseBlock_keep (o : Opts) (Ω : Oracles) (rt : Nat) (c : Bytes) (fault : Bool) (h : RepairsOff o) :
    KeepHdr (parseBlock o Ω rt c fault) := by
  unfold parseBlock
  keephdr
  all_goals first
    | exact digestFromField_keep o _
    | exact newHttpBlock_keep o Ω _ _ _ h
    | exact newWarcFieldsBlock_keep o _ _ _

section
variable (H : Alg → Bytes → Bytes)

theorem checkDigest_keep (o : Opts) (f : Bytes) (t : Tag) (d : Digest) (data : Bytes) (h : RepairsOff o) :
    KeepHdr (checkDigest H o f t d data) := by
  unfold checkDigest
  simp only [h.addDig, h.fixDig, Bool.and_false, Bool.false_eq_true, ↓reduceIte]
  constructor
  intro s
  simp only [M.bind_def, M.hdr_def]
  split
  · rfl
  · simp only [M.bind_def, M.hdr_def, M.setHdr_def]
    cases hc : condSite (o.spec != Pol.ignore && !Digest.valid H d data) o.spec t s with
    | mk r s' =>
      have := (KeepHdr.condSite (o.spec != Pol.ignore && !Digest.valid H d data) o.spec t).h s
      rw [hc] at this
      cases r <;> simpa using this

theorem validateDigest_keep (o : Opts) (rt : Nat) (b : Block) (fault : Bool) (h : RepairsOff o) :
    KeepHdr (validateDigest H o rt b fault) := by
  unfold validateDigest
  simp only [h.fixCL, Bool.and_false, Bool.false_eq_true, ↓reduceIte]
  have := checkDigest_keep H o
  keephdr
  all_goals first | exact checkDigest_keep H o _ _ _ _ h

end
end Gowarc

namespace Gowarc

theorem keep_of_eq {α} {m : M α} (hk : KeepHdr m) {s : St} {r : Except Tag α} {s' : St} (h : m s = (r, s')) :
    s'.hdr = s.hdr := by have := hk.h s; rw [h] at this; exact this

/-- the value a computation returns, if it returns one -/
def okVal {α} (r : Except Tag α × St) : Option α := match r.1 with | .ok a => some a | .error _ => none

theorem bind_ok {α β} (m : M α) (f : α → M β) (s : St) (b : β) (st : St) (h : (m >>= f) s = (.ok b, st)) :
    ∃ a s', m s = (.ok a, s') ∧ f a s' = (.ok b, st) := by
  simp only [M.bind_def] at h
  cases hm : m s with
  | mk r s' =>
    rw [hm] at h
    cases r with
    | ok a => exact ⟨a, s', rfl, h⟩
    | error e => simp at h

/-- the block a successful parseBlock returns holds exactly the content bytes (no syntax / warc-fields repair) -/
theorem parseBlock_raw (o : Opts) (Ω : Oracles) (rt : Nat) (c : Bytes) (fault : Bool) (s s' : St) (b : Block)
    (hfix : o.fixSyntaxErrors = false) (hwf : o.fixWarcFieldsBlockErrors = false)
    (h : parseBlock o Ω rt c fault s = (.ok b, s')) : b.raw = c := by
  unfold parseBlock at h
  obtain ⟨bd, s1, _, h⟩ := bind_ok _ _ _ _ _ h
  obtain ⟨pd, s2, _, h⟩ := bind_ok _ _ _ _ _ h
  obtain ⟨hd, s3, _, h⟩ := bind_ok _ _ _ _ _ h
  simp only [M.hdr_def, Prod.mk.injEq, Except.ok.injEq] at *
  by_cases c1 : (!o.skipParseBlock && rt &&& Gen.httpBlockMask != 0 && hasPrefix (bs Gen.c_ApplicationHttp) (lowerKey (hd.get (bs "Content-Type")))) = true
  · -- http
    simp only [c1, ↓reduceIte] at h
    unfold newHttpBlock at h
    simp only [hfix, Bool.and_false, Bool.false_and, Bool.false_eq_true, ↓reduceIte] at h
    obtain ⟨_, t1, _, h⟩ := bind_ok _ _ _ _ _ h
    obtain ⟨_, t2, _, h⟩ := bind_ok _ _ _ _ _ h
    obtain ⟨_, t3, _, h⟩ := bind_ok _ _ _ _ _ h
    obtain ⟨_, t4, _, h⟩ := bind_ok _ _ _ _ _ h
    obtain ⟨_, t5, _, h⟩ := bind_ok _ _ _ _ _ h
    simp only [M.pure_def, Prod.mk.injEq, Except.ok.injEq] at h
    rw [← h.1]
    exact headerBytes_append c
  · simp only [c1, Bool.false_eq_true, ↓reduceIte] at h
    by_cases c2 : (!o.skipParseBlock && rt == RT_Revisit) = true
    · simp only [c2, ↓reduceIte] at h
      by_cases c3 : fault = true
      · simp [c3] at h
      · simp only [c3, Bool.false_eq_true, ↓reduceIte, M.pure_def, Prod.mk.injEq, Except.ok.injEq] at h; rw [← h.1]
    · simp only [c2, Bool.false_eq_true, ↓reduceIte] at h
      by_cases c3 : (!o.skipParseBlock && hasPrefix (bs Gen.c_ApplicationWarcFields) (lowerKey (hd.get (bs "Content-Type")))) = true
      · simp only [c3, ↓reduceIte] at h
        unfold newWarcFieldsBlock wfFinish at h
        simp only [hwf, Bool.false_and, Bool.false_eq_true, ↓reduceIte] at h
        obtain ⟨_, t1, _, h⟩ := bind_ok _ _ _ _ _ h
        obtain ⟨b', t3, hw, h⟩ := bind_ok _ _ _ _ _ h
        simp only [M.pure_def, Prod.mk.injEq, Except.ok.injEq] at h
        rw [← h.1]
        obtain ⟨_, t2, _, hw⟩ := bind_ok _ _ _ _ _ hw
        cases he : (parseFields o.syn ⟨c, false⟩).errTag with
        | some t => simp [he] at hw
        | none =>
          simp only [he, M.pure_def, Prod.mk.injEq, Except.ok.injEq] at hw
          rw [← hw.1]
          simp only
          split <;> rfl
      · simp only [c3, Bool.false_eq_true, ↓reduceIte, M.pure_def, Prod.mk.injEq, Except.ok.injEq] at h; rw [← h.1]

section
variable (H : Alg → Bytes → Bytes)

/-- the bytes Content-Length frames behind the header section -/
def declaredBlock (fs : Fields) (s' : Stream) : Bytes :=
  if contentLengthOf fs < 0 then s'.rest else s'.rest.take (contentLengthOf fs).toNat

/-- **validation observes**: with the repair options off, under EVERY policy setting, a record returned by Unmarshal has
    exactly the parsed header fields — names and values untouched — and exactly the declared block -/
theorem unmarshalTail_observes (o : Opts) (Ω : Oracles) (vt : Bytes) (vi : Nat) (fs : Fields) (s' : Stream) (st st' : St)
    (r : Rec) (rest : Bytes) (hrep : RepairsOff o) (hwf : o.fixWarcFieldsBlockErrors = false)
    (h : unmarshalTail H o Ω vt vi fs s' st = (.ok (some r, rest), st')) :
    r.hdr = fs ∧ r.block.raw = declaredBlock fs s' := by
  unfold unmarshalTail at h
  obtain ⟨_, s1, h1, h⟩ := bind_ok _ _ _ _ _ h
  simp only [M.setHdr_def, Prod.mk.injEq, Except.ok.injEq, true_and] at h1
  obtain ⟨rt, s2, h2, h⟩ := bind_ok _ _ _ _ _ h
  have k2 : s2.hdr = s1.hdr := by have := (validateHeader_keep o Ω vi).h s1; rw [h2] at this; exact this
  obtain ⟨hd, s3, h3, h⟩ := bind_ok _ _ _ _ _ h
  simp only [M.hdr_def, Prod.mk.injEq, Except.ok.injEq] at h3
  obtain ⟨b, s4, h4, h⟩ := bind_ok _ _ _ _ _ h
  have k4 : s4.hdr = s3.hdr := keep_of_eq (parseBlock_keep o Ω _ _ _ hrep) h4
  obtain ⟨_, s5, h5, h⟩ := bind_ok _ _ _ _ _ h
  have k5 : s5.hdr = s4.hdr := keep_of_eq (validateDigest_keep H o _ _ _ hrep) h5
  obtain ⟨_, s5b, h5b, h⟩ := bind_ok _ _ _ _ _ h
  have k5b : s5b.hdr = s5.hdr := keep_of_eq (KeepHdr.condFail _ _) h5b
  obtain ⟨_, s6, h6, h⟩ := bind_ok _ _ _ _ _ h
  have k6 : s6.hdr = s5b.hdr := keep_of_eq (KeepHdr.condSite _ o.spec Tag.specTrailer) h6
  obtain ⟨hd2, s7, h7, h⟩ := bind_ok _ _ _ _ _ h
  simp only [M.hdr_def, Prod.mk.injEq, Except.ok.injEq] at h7
  simp only [M.pure_def, Prod.mk.injEq, Except.ok.injEq, Option.some.injEq] at h
  have hfs : s1.hdr = fs := by rw [← h1]
  have hhd : hd = fs := by rw [← h3.1, k2, hfs]
  have hraw := parseBlock_raw o Ω _ _ _ _ _ _ hrep.fixSyn hwf h4
  constructor
  · rw [← h.1.1]; simp only
    rw [← h7.1, k6, k5b, k5, k4, ← h3.2, k2, hfs]
  · rw [← h.1.1]; simp only
    rw [hraw, hhd]; rfl

end
end Gowarc
