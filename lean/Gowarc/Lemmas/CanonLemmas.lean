import Gowarc.Model.Fields
import Gowarc.Lemmas.ByteDecide
namespace Gowarc

theorem token_lt_128 : ∀ b : UInt8, isTokenByte b = true → b < 128 := by decide

theorem lowerKey_cons_ascii (b : UInt8) (rest : Bytes) (h : b < 128) :
    lowerKey (b :: rest) = toLowerB b :: lowerKey rest := by
  have h1 : b ≠ 0xE2 := by intro e; subst e; exact absurd h (by decide)
  have h2 : b ≠ 0xC4 := by intro e; subst e; exact absurd h (by decide)
  rw [lowerKey.eq_def]
  split
  · contradiction
  · rename_i heq; simp at heq; exact absurd heq.1 h1
  · rename_i heq; simp at heq; exact absurd heq.1 h2
  · rename_i heq; injection heq with hb hr; subst hb hr; simp [h]

theorem lowerKey_ascii (s : Bytes) (h : ∀ b ∈ s, b < 128) : lowerKey s = s.map toLowerB := by
  induction s with
  | nil => simp [lowerKey]
  | cons b rest ih =>
    rw [lowerKey_cons_ascii b rest (h b (by simp)), ih (fun x hx => h x (by simp [hx]))]
    simp

theorem canonStep_token : ∀ (up : Bool) (b : UInt8), isTokenByte b = true →
    isTokenByte (if up && isLower b then b - 32 else if !up && isUpper b then b + 32 else b) = true := by decide

theorem canonStep_lower : ∀ (up : Bool) (b : UInt8), isTokenByte b = true →
    toLowerB (if up && isLower b then b - 32 else if !up && isUpper b then b + 32 else b) = toLowerB b := by decide

/-- applying the canonicalisation step twice is the same as once (same `up`) -/
theorem canonStep_idem : ∀ (up : Bool) (b : UInt8),
    (let c := (if up && isLower b then b - 32 else if !up && isUpper b then b + 32 else b)
     (if up && isLower c then c - 32 else if !up && isUpper c then c + 32 else c) = c) := by decide

theorem canonLoop_all_token (up : Bool) (s : Bytes) (h : s.all isTokenByte = true) :
    (canonLoop up s).all isTokenByte = true := by
  induction s generalizing up with
  | nil => simp [canonLoop]
  | cons b rest ih =>
    simp only [List.all_cons, Bool.and_eq_true] at h
    rw [canonLoop, List.all_cons, canonStep_token up b h.1, ih _ h.2]; rfl

theorem canonLoop_lower (up : Bool) (s : Bytes) (h : s.all isTokenByte = true) :
    (canonLoop up s).map toLowerB = s.map toLowerB := by
  induction s generalizing up with
  | nil => simp [canonLoop]
  | cons b rest ih =>
    simp only [List.all_cons, Bool.and_eq_true] at h
    simp only [canonLoop, List.map_cons]
    rw [canonStep_lower up b h.1, ih _ h.2]

theorem canonLoop_idem (up : Bool) (s : Bytes) : canonLoop up (canonLoop up s) = canonLoop up s := by
  induction s generalizing up with
  | nil => simp [canonLoop]
  | cons b rest ih =>
    simp only [canonLoop]
    have := canonStep_idem up b
    simp only at this
    rw [this, ih]

theorem canonicalHeaderKey_idem (s : Bytes) : canonicalHeaderKey (canonicalHeaderKey s) = canonicalHeaderKey s := by
  unfold canonicalHeaderKey
  by_cases h : s.all isTokenByte = true
  · simp only [h, ↓reduceIte, canonLoop_all_token true s h, canonLoop_idem]
  · simp [h]

theorem lowerKey_canonicalHeaderKey (s : Bytes) : lowerKey (canonicalHeaderKey s) = lowerKey s := by
  unfold canonicalHeaderKey
  by_cases h : s.all isTokenByte = true
  · simp only [h, ↓reduceIte]
    have hs : ∀ b ∈ s, b < 128 := fun b hb => token_lt_128 b (List.all_eq_true.mp h b hb)
    have hc : ∀ b ∈ canonLoop true s, b < 128 :=
      fun b hb => token_lt_128 b (List.all_eq_true.mp (canonLoop_all_token true s h) b hb)
    rw [lowerKey_ascii _ hc, lowerKey_ascii _ hs, canonLoop_lower true s h]
  · simp [h]

/-- every name in the generated table is its own canonical form (checked by evaluation over the table) -/
theorem canon_table_fixed : Gen.fieldDefs.all (fun d => canon (bs d.name) == bs d.name) = true := by decide

theorem lookupDef_mem (lc : Bytes) (d : FieldDef) (h : lookupDef lc = some d) : d ∈ Gen.fieldDefs := by
  unfold lookupDef at h; exact List.mem_of_find?_eq_some h

theorem canon_idem (n : Bytes) : canon (canon n) = canon n := by
  unfold canon
  cases h : lookupDef (lowerKey n) with
  | some d =>
    simp only
    have hm := lookupDef_mem _ d h
    have := List.all_eq_true.mp canon_table_fixed d hm
    simp only [beq_iff_eq] at this
    unfold canon at this
    exact this
  | none =>
    simp only
    rw [lowerKey_canonicalHeaderKey, h]
    simp only
    exact canonicalHeaderKey_idem n

end Gowarc
