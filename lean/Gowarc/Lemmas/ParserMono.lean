/-
  The header parser under the ignore and the warn syntax policy: whenever warn accepts a header section, ignore accepts
  it too, with the same fields and the same remaining stream (ignore only drops the findings). Together with
  ParserSim (warn ↔ fail) this makes acceptance by the header parser monotone along the syntax axis.
-/
import Gowarc.Lemmas.ParserSim
namespace Gowarc

/-- warn accepts ⇒ ignore accepts, same fields, same rest -/
def FEq (ri rw : ParseRes) : Prop := ∀ fs f s', rw = .ok fs f s' → ∃ f', ri = .ok fs f' s'

theorem readLine_iw (s : Stream) :
    (readLine .ignore s).line = (readLine .warn s).line ∧ (readLine .ignore s).isNil = (readLine .warn s).isNil ∧
    (readLine .ignore s).nc = (readLine .warn s).nc ∧ (readLine .ignore s).rest = (readLine .warn s).rest ∧
    ((readLine .warn s).err = none → (readLine .ignore s).err = none) ∧
    ((readLine .warn s).err = some .synMissingCR → (readLine .ignore s).err = none) ∧
    (∀ e, (readLine .warn s).err = some e → e ≠ .synMissingCR → (readLine .ignore s).err = some e) := by
  unfold readLine
  split
  · split <;> simp
  · simp only [bne_self_eq_false, Bool.false_and, Bool.false_eq_true, ↓reduceIte, show (Pol.warn == Pol.fail) = false from rfl, Bool.and_false,
      show (Pol.warn != Pol.ignore) = true from rfl, Bool.true_and]
    split
    · split <;> simp
    · split <;> simp

theorem contLoop_iw (fuel : Nat) : ∀ (line : Bytes) (nc : UInt8) (eoh : Bool) (fi fw : List Tag) (s : Stream)
    (line' : Bytes) (nc' : UInt8) (eoh' : Bool) (fw' : List Tag) (s' : Stream),
    contLoop .warn fuel line nc eoh fw s = .inr (line', nc', eoh', fw', s') →
    ∃ fi', contLoop .ignore fuel line nc eoh fi s = .inr (line', nc', eoh', fi', s') := by
  induction fuel with
  | zero =>
    intro line nc eoh fi fw s line' nc' eoh' fw' s' h
    rw [contLoop] at h ⊢
    simp only [Sum.inr.injEq, Prod.mk.injEq] at h
    obtain ⟨rfl, rfl, rfl, _, rfl⟩ := h
    exact ⟨fi, rfl⟩
  | succ f ih =>
    intro line nc eoh fi fw s line' nc' eoh' fw' s' h
    obtain ⟨hl, hn, hc, hr, he0, he1, he2⟩ := readLine_iw s
    rw [contLoop] at h ⊢
    by_cases hsp : (nc == SP || nc == HT) = true
    · simp only [hsp, ↓reduceIte] at h ⊢
      cases hew : (readLine .warn s).err with
      | none =>
        rw [hew] at h
        simp only at h
        rw [he0 hew]
        simp only
        rw [hl, hc, hr]
        exact ih _ _ _ fi fw _ _ _ _ _ _ h
      | some e =>
        rw [hew] at h
        simp only at h
        by_cases hnil : (readLine .warn s).isNil = true
        · simp [hnil] at h
        · simp only [hnil, Bool.false_eq_true, ↓reduceIte] at h
          by_cases hcr : e = .synMissingCR
          · subst hcr
            rw [he1 hew]
            simp only
            rw [hl, hc, hr]
            have : (eoh || Tag.synMissingCR == Tag.eoh) = eoh := by simp
            rw [this] at h
            exact ih _ _ _ fi _ _ _ _ _ _ _ h
          · rw [he2 e hew hcr]
            simp only [hn, hnil, Bool.false_eq_true, ↓reduceIte]
            rw [hl, hc, hr]
            exact ih _ _ _ fi _ _ _ _ _ _ _ h
    · simp only [hsp, Bool.false_eq_true, ↓reduceIte] at h ⊢
      simp only [Sum.inr.injEq, Prod.mk.injEq] at h
      obtain ⟨rfl, rfl, rfl, _, rfl⟩ := h
      exact ⟨fi, rfl⟩

theorem afterLine_iw (ki kw : Fields → List Tag → Stream → ParseRes) (wf : Fields) (fi fw : List Tag) (nc : UInt8) (eoh : Bool) (s : Stream)
    (hk : FEq (ki wf fi s) (kw wf fw s)) : FEq (afterLine ki wf fi nc eoh s) (afterLine kw wf fw nc eoh s) := by
  unfold afterLine
  split
  · intro fs f s' h; simp only [ParseRes.ok.injEq] at h; obtain ⟨rfl, _, rfl⟩ := h; exact ⟨fi, rfl⟩
  · split
    · intro fs f s' h; cases h
    · intro fs f s' h; simp only [ParseRes.ok.injEq] at h; obtain ⟨rfl, _, rfl⟩ := h; exact ⟨fi, rfl⟩
    · exact hk

theorem parseRest_iw (ki kw : Fields → List Tag → Stream → ParseRes) (wf : Fields) (fi fw : List Tag) (lri lrw : LineRes) (eoh fault : Bool)
    (hline : lri.line = lrw.line) (hnc : lri.nc = lrw.nc) (hrest : lri.rest = lrw.rest)
    (hk : ∀ wf' fi' fw' s', FEq (ki wf' fi' s') (kw wf' fw' s')) :
    FEq (parseRest .ignore ki wf fi lri eoh fault) (parseRest .warn kw wf fw lrw eoh fault) := by
  unfold parseRest
  rw [hline, hnc, hrest]
  cases hcw : contLoop .warn (lrw.rest.length + 1) lrw.line lrw.nc eoh fw ⟨lrw.rest, fault⟩ with
  | inl e => intro fs f s' h; obtain ⟨t, fd⟩ := e; simp at h
  | inr v =>
    obtain ⟨line, nc, eoh', fw', s'⟩ := v
    obtain ⟨fi', hci⟩ := contLoop_iw _ _ _ _ fi fw _ _ _ _ _ _ hcw
    rw [hci]
    simp only
    cases parseLine line with
    | inl e => exact afterLine_iw ki kw wf fi' _ nc eoh' s' (hk _ _ _ _)
    | inr nv => obtain ⟨n, v⟩ := nv; exact afterLine_iw ki kw _ fi' fw' nc eoh' s' (hk _ _ _ _)

theorem parseLoop_iw (fuel : Nat) : ∀ (wf : Fields) (fi fw : List Tag) (s : Stream),
    FEq (parseLoop .ignore fuel wf fi s) (parseLoop .warn fuel wf fw s) := by
  induction fuel with
  | zero => intro wf fi fw s fs f s' h; rw [parseLoop] at h; cases h
  | succ k ih =>
    intro wf fi fw s
    obtain ⟨hl, hn, hc, hr, he0, he1, he2⟩ := readLine_iw s
    have hk : ∀ wf' fi' fw' s', FEq (parseLoop .ignore k wf' fi' s') (parseLoop .warn k wf' fw' s') := fun a b c d => ih a b c d
    have hpr : ∀ fi' fw' eoh, FEq (parseRest .ignore (parseLoop .ignore k) wf fi' (readLine .ignore s) eoh s.fault)
        (parseRest .warn (parseLoop .warn k) wf fw' (readLine .warn s) eoh s.fault) :=
      fun fi' fw' eoh => parseRest_iw _ _ wf fi' fw' _ _ eoh s.fault hl hc hr hk
    show FEq (parseLoop .ignore (k + 1) wf fi s) (parseLoop .warn (k + 1) wf fw s)
    unfold parseLoop
    cases hew : (readLine .warn s).err with
    | none => rw [he0 hew]; exact hpr _ _ _
    | some e =>
      by_cases hcr : e = .synMissingCR
      · subst hcr
        rw [he1 hew]
        simp only
        exact hpr _ _ _
      · rw [he2 e hew hcr]
        simp only
        split
        · intro fs f s' h; cases h
        · split
          · rw [hl]
            split
            · intro fs f s' h; simp only [ParseRes.ok.injEq] at h; obtain ⟨rfl, _, rfl⟩ := h; exact ⟨fi, rfl⟩
            · exact hpr _ _ _
          · exact hpr _ _ _

/-- **warn accepts ⇒ ignore accepts** with the same fields and the same remaining stream -/
theorem parseFields_iw (s : Stream) : FEq (parseFields .ignore s) (parseFields .warn s) :=
  parseLoop_iw _ _ _ _ _

end Gowarc
