/-
  base64 (standard alphabet, padded): decoding inverts encoding, for every byte string.
  Model of encoding/base64 as used by digest.go; the same functions run in the driver against the implementation.
-/
import Gowarc.Model.Digest
import Gowarc.Lemmas.ByteDecide
namespace Gowarc

/-- equality of bytes built from shifts, masks and ors: bit by bit -/
macro "bits" : tactic => `(tactic| (
  apply UInt8.eq_of_toBitVec_eq
  simp only [UInt8.toBitVec_or, UInt8.toBitVec_shiftLeft, UInt8.toBitVec_shiftRight, UInt8.toBitVec_and, UInt8.toBitVec_ofNat]
  ext i hi
  simp
  have : i = 0 ∨ i = 1 ∨ i = 2 ∨ i = 3 ∨ i = 4 ∨ i = 5 ∨ i = 6 ∨ i = 7 := by omega
  rcases this with h | h | h | h | h | h | h | h <;> subst h <;> simp))

theorem b64Val_char : ∀ n : UInt8, n < 64 → b64Val (b64Char n) = some n := by decide
theorem shr2_lt64 : ∀ a : UInt8, a >>> 2 < 64 := by decide
theorem and63_lt64 : ∀ a : UInt8, a &&& 63 < 64 := by decide
theorem b64Char_not_nl : ∀ n : UInt8, isNl (b64Char n) = false := by decide

theorem b64_byte0 (a b : UInt8) : (a >>> 2) <<< 2 ||| ((a <<< 4 ||| b >>> 4) &&& 63) >>> 4 = a := by bits
theorem b64_byte1 (a b c : UInt8) : ((a <<< 4 ||| b >>> 4) &&& 63) <<< 4 ||| ((b <<< 2 ||| c >>> 6) &&& 63) >>> 2 = b := by bits
theorem b64_byte2 (b c : UInt8) : ((b <<< 2 ||| c >>> 6) &&& 63) <<< 6 ||| (c &&& 63) = c := by bits

theorem b64Quantum_full (q0 q1 q2 q3 : UInt8) (h0 : q0 < 64) (h1 : q1 < 64) (h2 : q2 < 64) (h3 : q3 < 64) (rest : Bytes) :
    b64Quantum (b64Char q0 :: b64Char q1 :: b64Char q2 :: b64Char q3 :: rest) 0 [] = some (b64Pack [q0, q1, q2, q3] 4, rest) := by
  simp [b64Quantum, b64Val_char _ h0, b64Val_char _ h1, b64Val_char _ h2, b64Val_char _ h3]

theorem b64Group3 (a b c : UInt8) :
    b64Group [a, b, c] = [b64Char (a >>> 2), b64Char ((a <<< 4 ||| b >>> 4) &&& 63), b64Char ((b <<< 2 ||| c >>> 6) &&& 63), b64Char (c &&& 63)] := by
  simp [b64Group]

theorem b64Pack_full (a b c : UInt8) :
    b64Pack [a >>> 2, (a <<< 4 ||| b >>> 4) &&& 63, (b <<< 2 ||| c >>> 6) &&& 63, c &&& 63] 4 = [a, b, c] := by
  simp [b64Pack, b64_byte0, b64_byte1, b64_byte2]

theorem b64_tail1 (a : UInt8) : (a >>> 2) <<< 2 ||| (a <<< 4 &&& 63) >>> 4 = a := by bits
theorem b64_tail2b (a b : UInt8) : ((a <<< 4 ||| b >>> 4) &&& 63) <<< 4 ||| (b <<< 2 &&& 63) >>> 2 = b := by bits

theorem b64Val_pad : b64Val 61 = none := by decide

/-- one byte left: two characters and `==` -/
theorem b64Quantum_tail1 (a : UInt8) : b64Quantum (b64Group [a]) 0 [] = some ([a], []) := by
  simp [b64Group, b64Quantum, b64Val_char _ (shr2_lt64 a), b64Val_char _ (and63_lt64 _), b64Val_pad, isNl, b64Pack, b64_tail1]

/-- two bytes left: three characters and `=` -/
theorem b64Quantum_tail2 (a b : UInt8) : b64Quantum (b64Group [a, b]) 0 [] = some ([a, b], []) := by
  simp [b64Group, b64Quantum, b64Val_char _ (shr2_lt64 a), b64Val_char _ (and63_lt64 _), b64Val_pad, isNl, b64Pack, b64_byte0, b64_tail2b]

theorem b64DecLoop_enc (b : Bytes) : ∀ fuel, (b64Enc b).length < fuel → b64DecLoop fuel (b64Enc b) = some b := by
  fun_induction b64Enc b with
  | case1 => intro fuel h; cases fuel <;> simp [b64DecLoop] at h ⊢
  | case2 a b c rest ih =>
    intro fuel h
    cases fuel with
    | zero => omega
    | succ f =>
      rw [b64Group3] at h ⊢
      simp only [List.cons_append, List.nil_append, List.length_cons] at h
      simp only [b64DecLoop, List.cons_append, List.nil_append, List.isEmpty_cons, Bool.false_eq_true, ↓reduceIte]
      rw [b64Quantum_full _ _ _ _ (shr2_lt64 a) (and63_lt64 _) (and63_lt64 _) (and63_lt64 _), b64Pack_full]
      simp only
      rw [ih f (by omega)]
      rfl
  | case3 g h1 h2 =>
    intro fuel h
    cases fuel with
    | zero => omega
    | succ f =>
      match g, h1, h2 with
      | [], h1, _ => exact absurd rfl h1
      | [a], _, _ =>
        have hne : (b64Group [a]).isEmpty = false := by simp [b64Group]
        simp only [b64DecLoop, hne, Bool.false_eq_true, ↓reduceIte, b64Quantum_tail1]
        cases f <;> simp [b64DecLoop]
      | [a, b], _, _ =>
        have hne : (b64Group [a, b]).isEmpty = false := by simp [b64Group]
        simp only [b64DecLoop, hne, Bool.false_eq_true, ↓reduceIte, b64Quantum_tail2]
        cases f <;> simp [b64DecLoop]
      | a :: b :: c :: rest, _, h2 => exact absurd rfl (h2 a b c rest)

/-- **base64 decoding inverts encoding, for every byte string** -/
theorem b64_roundtrip (b : Bytes) : b64Dec (b64Enc b) = some b :=
  b64DecLoop_enc b _ (Nat.lt_succ_self _)

end Gowarc
