/-
  Findings are only ever appended, and nothing a validation step computes depends on the findings collected so far:
  running a computation from a state with extra findings in front gives the same result, the same header, and the same
  findings with that prefix in front (`Frame`). Compositional over the validation monad, as NoFind / KeepHdr.
-/
import Gowarc.Lemmas.KeepHdr
namespace Gowarc

structure Frame {α} (m : M α) : Prop where
  h : ∀ (hd : Fields) (f0 f : List Tag), m ⟨hd, f0 ++ f⟩ = ((m ⟨hd, f⟩).1, ⟨(m ⟨hd, f⟩).2.hdr, f0 ++ (m ⟨hd, f⟩).2.fnd⟩)

namespace Frame

theorem pure {α} (a : α) : Frame (Pure.pure a : M α) := ⟨fun _ _ _ => rfl⟩
theorem fail {α} (t : Tag) : Frame (M.fail t : M α) := ⟨fun _ _ _ => rfl⟩
theorem hdr : Frame M.hdr := ⟨fun _ _ _ => rfl⟩
theorem setHdr (h : Fields) : Frame (M.setHdr h) := ⟨fun _ _ _ => rfl⟩
theorem finding (t : Tag) : Frame (M.finding t) := ⟨fun _ _ _ => by simp [List.append_assoc]⟩
theorem addFindings (l : List Tag) : Frame (M.addFindings l) := ⟨fun _ _ _ => by simp [List.append_assoc]⟩

theorem bind {α β} {m : M α} {f : α → M β} (hm : Frame m) (hf : ∀ a, Frame (f a)) : Frame (m >>= f) := by
  constructor
  intro hd f0 fs
  simp only [M.bind_def]
  rw [hm.h hd f0 fs]
  cases hr : m ⟨hd, fs⟩ with
  | mk r s' =>
    cases r with
    | ok a =>
      simp only
      obtain ⟨h', f'⟩ := s'
      rw [(hf a).h h' f0 f']
    | error e => rfl

theorem ite {α} {c : Prop} [Decidable c] {m1 m2 : M α} (h1 : Frame m1) (h2 : Frame m2) :
    Frame (if c then m1 else m2) := by split <;> assumption

theorem site (p : Pol) (t : Tag) : Frame (Gowarc.site p t) := by
  cases p
  · exact ⟨fun _ _ _ => rfl⟩
  · exact finding t
  · exact ⟨fun _ _ _ => rfl⟩

theorem condSite (c : Bool) (p : Pol) (t : Tag) : Frame (Gowarc.condSite c p t) := by
  unfold Gowarc.condSite; exact ite (site p t) (pure ())

theorem condFail (c : Bool) (t : Tag) : Frame (Gowarc.condFail c t) := by
  unfold Gowarc.condFail; exact ite (fail t) (pure ())

end Frame

macro "frame" : tactic => `(tactic| repeat' (first
  | assumption
  | exact Frame.hdr
  | exact Frame.setHdr _
  | exact Frame.pure _
  | exact Frame.fail _
  | exact Frame.site _ _
  | exact Frame.condSite _ _ _
  | exact Frame.condFail _ _
  | exact Frame.finding _
  | exact Frame.addFindings _
  | with_reducible apply Frame.bind
  | with_reducible apply Frame.ite
  | intro _
  | with_reducible split))

theorem resolveRecordType_frame (o : Opts) : Frame (resolveRecordType o) := by unfold resolveRecordType; frame

theorem validateFieldsLoop_frame (o : Opts) (Ω : Oracles) (v rt : Nat) (l : Fields) : Frame (validateFieldsLoop o Ω v rt l) := by
  induction l with
  | nil => unfold validateFieldsLoop; frame
  | cons nv rest ih => obtain ⟨n, w⟩ := nv; unfold validateFieldsLoop; frame

theorem requiredLoop_frame (o : Opts) (l : List String) : Frame (requiredLoop o l) := by
  induction l with
  | nil => unfold requiredLoop; frame
  | cons x rest ih => unfold requiredLoop; frame

theorem validateSpec_frame (o : Opts) (Ω : Oracles) (v rt : Nat) : Frame (validateSpec o Ω v rt) := by
  unfold validateSpec
  frame
  · exact validateFieldsLoop_frame o Ω v rt _
  · exact requiredLoop_frame o _

theorem validateHeader_frame (o : Opts) (Ω : Oracles) (v : Nat) : Frame (validateHeader o Ω v) := by
  unfold validateHeader
  have := resolveRecordType_frame o
  frame
  exact validateSpec_frame o Ω v _

theorem digestFromField_frame (o : Opts) (f : Bytes) : Frame (digestFromField o f) := by
  unfold digestFromField; frame

theorem newHttpBlock_frame (o : Opts) (Ω : Oracles) (c : Bytes) (bd pd : Digest) : Frame (newHttpBlock o Ω c bd pd) := by
  unfold newHttpBlock
  frame

theorem wfFindings_frame (l : List Tag) : Frame (wfFindings l) := by
  induction l with
  | nil => unfold wfFindings; frame
  | cons x rest ih => unfold wfFindings; frame

theorem newWarcFieldsBlock_frame (o : Opts) (c : Bytes) (fault : Bool) (bd : Digest) : Frame (newWarcFieldsBlock o c fault bd) := by
  unfold newWarcFieldsBlock wfFinish wfReport
  frame
  exact wfFindings_frame _

theorem parseBlock_frame (o : Opts) (Ω : Oracles) (rt : Nat) (c : Bytes) (fault : Bool) : Frame (parseBlock o Ω rt c fault) := by
  unfold parseBlock
  frame
  all_goals first
    | exact digestFromField_frame o _
    | exact newHttpBlock_frame o Ω _ _ _
    | exact newWarcFieldsBlock_frame o _ _ _

section
variable (H : Alg → Bytes → Bytes)

theorem checkDigest_frame (o : Opts) (f : Bytes) (t : Tag) (d : Digest) (data : Bytes) : Frame (checkDigest H o f t d data) := by
  unfold checkDigest
  frame

theorem validateDigest_frame (o : Opts) (rt : Nat) (b : Block) (fault : Bool) : Frame (validateDigest H o rt b fault) := by
  unfold validateDigest
  have := checkDigest_frame H o
  frame
  all_goals first | exact checkDigest_frame H o _ _ _ _

theorem versionOf_frame (o : Opts) (txt : Bytes) : Frame (versionOf o txt) := by
  unfold versionOf; frame

theorem unmarshalTail_frame (o : Opts) (Ω : Oracles) (vt : Bytes) (vi : Nat) (fs : Fields) (s' : Stream) :
    Frame (unmarshalTail H o Ω vt vi fs s') := by
  unfold unmarshalTail
  frame
  all_goals first
    | exact validateHeader_frame o Ω _
    | exact parseBlock_frame o Ω _ _ _
    | exact validateDigest_frame H o _ _ _

theorem unmarshalRest_frame (o : Opts) (Ω : Oracles) (vt : Bytes) (vi : Nat) (res : ParseRes) : Frame (unmarshalRest H o Ω vt vi res) := by
  unfold unmarshalRest
  cases res with
  | err t fnd => simp only; frame
  | ok fs fnd s' => simp only; frame; exact unmarshalTail_frame H o Ω vt vi fs s'

theorem unmarshalBody_frame (o : Opts) (Ω : Oracles) (s : Stream) (verLine : Bytes) : Frame (unmarshalBody H o Ω s verLine) := by
  unfold unmarshalBody
  frame
  · exact versionOf_frame o _
  · exact unmarshalRest_frame H o Ω _ _ _

end
end Gowarc
