import Gowarc.Lemmas.PolicyLemmas
namespace Gowarc

/-! ## The header parser under warn and under fail tell one story

`PSim fnd0 rw rf`: `rw` is the outcome under warn starting from accumulated findings `fnd0`, `rf` the outcome under fail
from the same point. Either warn added no finding and both outcomes are identical (or both are errors), or warn added
findings and fail returned an error (with the findings unchanged). -/

def ParseRes.isErr : ParseRes → Bool
  | .ok .. => false
  | .err .. => true

structure PSim (fnd0 : List Tag) (rw rf : ParseRes) : Prop where
  mono : ∃ extra, rw.fnd = fnd0 ++ extra
  ffnd : rf.fnd = fnd0
  same : rw.fnd = fnd0 → rf = rw ∨ (rw.isErr = true ∧ rf.isErr = true)
  diff : rw.fnd ≠ fnd0 → rf.isErr = true

theorem PSim.refl (fnd0 : List Tag) (r : ParseRes) (h : r.fnd = fnd0) : PSim fnd0 r r :=
  ⟨⟨[], by simp [h]⟩, h, fun _ => .inl rfl, fun hne => absurd h hne⟩

theorem PSim.both_err (fnd0 : List Tag) (t t' : Tag) : PSim fnd0 (.err t fnd0) (.err t' fnd0) :=
  ⟨⟨[], by simp [ParseRes.fnd]⟩, rfl, fun _ => .inr ⟨rfl, rfl⟩, fun h => absurd rfl h⟩

/-- warn went on with strictly more findings, fail stopped with an error here -/
theorem PSim.of_more (fnd0 : List Tag) (rw : ParseRes) (t : Tag) (x : Tag) (extra : List Tag)
    (h : rw.fnd = fnd0 ++ x :: extra) : PSim fnd0 rw (.err t fnd0) :=
  ⟨⟨x :: extra, h⟩, rfl, fun he => by rw [h] at he; simp at he, fun _ => rfl⟩

/-- transport along a run that first added `pre ≠ []` -/
theorem PSim.of_extends (fnd0 : List Tag) (rw : ParseRes) (t : Tag) (pre : List Tag) (hpre : pre ≠ [])
    (h : ∃ extra, rw.fnd = (fnd0 ++ pre) ++ extra) : PSim fnd0 rw (.err t fnd0) := by
  obtain ⟨extra, he⟩ := h
  cases pre with
  | nil => exact absurd rfl hpre
  | cons x xs => exact PSim.of_more fnd0 rw t x (xs ++ extra) (by rw [he]; simp)

/-! ### readLine: identical unless a carriage return is missing -/

/-- what the two policies can disagree on for one line: only when the line lacks its CR — then fail reports exactly
    that, and warn reports it too or (if the stream fails right after the line) the reader error -/
theorem readLine_rel (s : Stream) :
    readLine .warn s = readLine .fail s ∨
    ((readLine .fail s).err = some .synMissingCR ∧
      (((readLine .warn s).err = some .synMissingCR ∧ (readLine .warn s).line = (readLine .fail s).line ∧
          (readLine .warn s).isNil = (readLine .fail s).isNil ∧ (readLine .warn s).rest = (readLine .fail s).rest) ∨
       ((readLine .warn s).err = some .reader ∧ (readLine .warn s).isNil = true))) := by
  unfold readLine
  by_cases h1 : (readBytesNL s.rest).2.2 = true
  · by_cases h2 : missingCR (readBytesNL s.rest).1 = true
    · right
      simp only [h1, Bool.not_true, Bool.false_eq_true, ↓reduceIte, h2,
        show (Pol.warn != Pol.ignore) = true by decide, show (Pol.fail != Pol.ignore) = true by decide,
        show (Pol.warn == Pol.fail) = false by decide, show (Pol.fail == Pol.fail) = true by decide, Bool.and_true,
        Bool.and_false, Bool.and_self, true_and]
      cases hr : (readBytesNL s.rest).2.1 with
      | nil => by_cases hf : s.fault = true <;> simp [hf]
      | cons c more => simp
    · left
      simp only [h1, Bool.not_true, Bool.false_eq_true, ↓reduceIte, h2, Bool.and_false, Bool.false_and]
  · left; simp [h1]

end Gowarc

namespace Gowarc

abbrev CRes := Sum (Tag × List Tag) (Bytes × UInt8 × Bool × List Tag × Stream)

def CRes.isErr : CRes → Bool
  | .inl _ => true
  | .inr _ => false

theorem contLoop_mono (syn : Pol) (fuel : Nat) (line : Bytes) (nc : UInt8) (eoh : Bool) (fnd : List Tag) (s : Stream) :
    ∃ extra, contFnd (contLoop syn fuel line nc eoh fnd s) = fnd ++ extra := by
  induction fuel generalizing line nc eoh fnd s with
  | zero => exact ⟨[], by simp [contLoop, contFnd]⟩
  | succ k ih =>
    unfold contLoop
    split
    · split
      · exact ih _ _ _ _ _
      · split
        · exact ⟨[], by simp [contFnd]⟩
        · cases syn with
          | fail => exact ⟨[], by simp [contFnd]⟩
          | warn =>
            obtain ⟨e, he⟩ := ih (line ++ [SP] ++ (readLine Pol.warn s).line) (readLine Pol.warn s).nc (eoh || _ == Tag.eoh)
              (fnd ++ [if (_ == Tag.eoh) = true then Tag.synMissingNewline else _]) ⟨(readLine Pol.warn s).rest, s.fault⟩
            exact ⟨_ :: e, by rw [he, List.append_assoc]; rfl⟩
          | ignore => exact ih _ _ _ _ _
    · exact ⟨[], by simp [contFnd]⟩

structure CSim (fnd0 : List Tag) (cw cf : CRes) : Prop where
  mono : ∃ extra, contFnd cw = fnd0 ++ extra
  ffnd : contFnd cf = fnd0
  same : contFnd cw = fnd0 → cf = cw ∨ (cw.isErr = true ∧ cf.isErr = true)
  diff : contFnd cw ≠ fnd0 → cf.isErr = true

theorem CSim.refl (fnd0 : List Tag) (c : CRes) (h : contFnd c = fnd0) : CSim fnd0 c c :=
  ⟨⟨[], by simp [h]⟩, h, fun _ => .inl rfl, fun hne => absurd h hne⟩

theorem CSim.of_more (fnd0 : List Tag) (cw : CRes) (t : Tag) (x : Tag) (extra : List Tag)
    (h : contFnd cw = fnd0 ++ x :: extra) : CSim fnd0 cw (.inl (t, fnd0)) :=
  ⟨⟨x :: extra, h⟩, rfl, fun he => by rw [h] at he; simp at he, fun _ => rfl⟩

theorem contLoop_sim (fuel : Nat) (line : Bytes) (nc : UInt8) (eoh : Bool) (fnd : List Tag) (s : Stream) :
    CSim fnd (contLoop .warn fuel line nc eoh fnd s) (contLoop .fail fuel line nc eoh fnd s) := by
  induction fuel generalizing line nc eoh s with
  | zero => exact CSim.refl _ _ (by simp [contLoop, contFnd])
  | succ k ih =>
    by_cases hnc : (nc == SP || nc == HT) = true
    · rcases readLine_rel s with hrl | ⟨hf, hw⟩
      · -- the line is read identically
        unfold contLoop
        simp only [hnc, ↓reduceIte, hrl]
        cases he : (readLine Pol.fail s).err with
        | none => exact ih _ _ _ _
        | some e =>
          simp only
          by_cases hn : (readLine Pol.fail s).isNil = true
          · simp only [hn, ↓reduceIte]; exact CSim.refl _ _ rfl
          · simp only [hn, Bool.false_eq_true, ↓reduceIte]
            obtain ⟨ex, hex⟩ := contLoop_mono .warn k (line ++ [SP] ++ (readLine Pol.fail s).line) (readLine Pol.fail s).nc
              (eoh || e == Tag.eoh) (fnd ++ [if (e == Tag.eoh) = true then Tag.synMissingNewline else e]) ⟨(readLine Pol.fail s).rest, s.fault⟩
            exact CSim.of_more _ _ _ _ ex (by rw [hex, List.append_assoc]; rfl)
      · -- the line lacks its carriage return
        have hfail : contLoop .fail (k + 1) line nc eoh fnd s = .inl (Tag.synMissingCR, fnd) := by
          unfold contLoop
          simp only [hnc, ↓reduceIte, hf]
          by_cases hn : (readLine Pol.fail s).isNil = true
          · simp [hn]
          · simp [hn]
        rw [hfail]
        rcases hw with ⟨hwe, hwl, hwn, hwr⟩ | ⟨hwe, hwn⟩
        · unfold contLoop
          simp only [hnc, ↓reduceIte, hwe]
          by_cases hn : (readLine Pol.warn s).isNil = true
          · simp only [hn, ↓reduceIte]; exact CSim.refl _ _ rfl
          · simp only [hn, Bool.false_eq_true, ↓reduceIte]
            obtain ⟨ex, hex⟩ := contLoop_mono .warn k (line ++ [SP] ++ (readLine Pol.warn s).line) (readLine Pol.warn s).nc
              (eoh || Tag.synMissingCR == Tag.eoh) (fnd ++ [if (Tag.synMissingCR == Tag.eoh) = true then Tag.synMissingNewline else Tag.synMissingCR])
              ⟨(readLine Pol.warn s).rest, s.fault⟩
            exact CSim.of_more _ _ _ _ ex (by rw [hex, List.append_assoc]; rfl)
        · unfold contLoop
          simp only [hnc, ↓reduceIte, hwe, hwn]
          exact ⟨⟨[], by simp [contFnd]⟩, rfl, fun _ => .inr ⟨rfl, rfl⟩, fun h => absurd (by simp [contFnd]) h⟩
    · unfold contLoop
      simp only [hnc, Bool.false_eq_true, ↓reduceIte]
      exact CSim.refl _ _ rfl

end Gowarc

namespace Gowarc

abbrev Kont := Fields → List Tag → Stream → ParseRes

def KMono (k : Kont) : Prop := ∀ wf fnd s, ∃ e, (k wf fnd s).fnd = fnd ++ e
def KSim (kw kf : Kont) : Prop := ∀ wf fnd s, PSim fnd (kw wf fnd s) (kf wf fnd s)

theorem afterLine_mono (k : Kont) (hk : KMono k) (wf : Fields) (fnd : List Tag) (nc : UInt8) (eoh : Bool) (s : Stream) :
    ∃ e, (afterLine k wf fnd nc eoh s).fnd = fnd ++ e := by
  unfold afterLine
  split
  · exact ⟨[], by simp [ParseRes.fnd]⟩
  · split
    · exact ⟨[], by simp [ParseRes.fnd]⟩
    · exact ⟨[], by simp [ParseRes.fnd]⟩
    · exact hk _ _ _

theorem afterLine_sim (kw kf : Kont) (hk : KSim kw kf) (wf : Fields) (fnd : List Tag) (nc : UInt8) (eoh : Bool) (s : Stream) :
    PSim fnd (afterLine kw wf fnd nc eoh s) (afterLine kf wf fnd nc eoh s) := by
  unfold afterLine
  split
  · exact PSim.refl _ _ rfl
  · split
    · exact PSim.refl _ _ rfl
    · exact PSim.refl _ _ rfl
    · exact hk _ _ _

theorem parseRest_mono (k : Kont) (hk : KMono k) (wf : Fields) (fnd : List Tag) (lr : LineRes) (eoh fault : Bool) :
    ∃ e, (parseRest .warn k wf fnd lr eoh fault).fnd = fnd ++ e := by
  unfold parseRest
  obtain ⟨e1, he1⟩ := contLoop_mono .warn (lr.rest.length + 1) lr.line lr.nc eoh fnd ⟨lr.rest, fault⟩
  cases hcl : contLoop .warn (lr.rest.length + 1) lr.line lr.nc eoh fnd ⟨lr.rest, fault⟩ with
  | inl p =>
    obtain ⟨e, f⟩ := p
    rw [hcl] at he1; simp only [contFnd] at he1
    exact ⟨e1, by simp [ParseRes.fnd, he1]⟩
  | inr p =>
    obtain ⟨line, nc, eoh', fnd', s'⟩ := p
    rw [hcl] at he1; simp only [contFnd] at he1
    subst he1
    simp only
    split
    · obtain ⟨e2, he2⟩ := afterLine_mono k hk wf (fnd ++ e1 ++ [_]) nc eoh' s'
      exact ⟨_, by rw [he2, List.append_assoc, List.append_assoc]⟩
    · obtain ⟨e2, he2⟩ := afterLine_mono k hk (wf.add _ _) (fnd ++ e1) nc eoh' s'
      exact ⟨_, by rw [he2, List.append_assoc]⟩

theorem parseRest_sim (kw kf : Kont) (hk : KSim kw kf) (hm : KMono kw) (wf : Fields) (fnd : List Tag) (lr : LineRes) (eoh fault : Bool) :
    PSim fnd (parseRest .warn kw wf fnd lr eoh fault) (parseRest .fail kf wf fnd lr eoh fault) := by
  have hc := contLoop_sim (lr.rest.length + 1) lr.line lr.nc eoh fnd ⟨lr.rest, fault⟩
  obtain ⟨emono, hmono⟩ := parseRest_mono kw hm wf fnd lr eoh fault
  by_cases hsame : contFnd (contLoop .warn (lr.rest.length + 1) lr.line lr.nc eoh fnd ⟨lr.rest, fault⟩) = fnd
  · rcases hc.same hsame with heq | ⟨hwe, hfe⟩
    · -- the continuation lines were read identically
      unfold parseRest
      rw [heq]
      cases hcl : contLoop .warn (lr.rest.length + 1) lr.line lr.nc eoh fnd ⟨lr.rest, fault⟩ with
      | inl p => obtain ⟨e, f⟩ := p; rw [hcl] at hsame; simp only [contFnd] at hsame; subst hsame; exact PSim.refl _ _ rfl
      | inr p =>
        obtain ⟨line, nc, eoh', fnd', s'⟩ := p
        rw [hcl] at hsame; simp only [contFnd] at hsame; subst hsame
        simp only
        cases hpl : parseLine line with
        | inl e =>
          simp only
          obtain ⟨e2, he2⟩ := afterLine_mono kw hm wf (fnd' ++ [e]) nc eoh' s'
          exact PSim.of_more _ _ _ e e2 (by rw [he2, List.append_assoc]; rfl)
        | inr p => obtain ⟨n, v⟩ := p; exact afterLine_sim kw kf hk _ _ _ _ _
    · -- both stopped inside the continuation loop
      unfold parseRest
      cases hclw : contLoop .warn (lr.rest.length + 1) lr.line lr.nc eoh fnd ⟨lr.rest, fault⟩ with
      | inr p => rw [hclw] at hwe; simp [CRes.isErr] at hwe
      | inl pw =>
        obtain ⟨ew, fw⟩ := pw
        rw [hclw] at hsame; simp only [contFnd] at hsame; subst hsame
        cases hclf : contLoop .fail (lr.rest.length + 1) lr.line lr.nc eoh fw ⟨lr.rest, fault⟩ with
        | inr p => rw [hclf] at hfe; simp [CRes.isErr] at hfe
        | inl pf =>
          obtain ⟨ef, ff⟩ := pf
          have := hc.ffnd; rw [hclf] at this; simp only [contFnd] at this; subst this
          exact PSim.both_err _ _ _
  · -- warn recorded findings in the continuation loop: fail has returned an error
    have hfe := hc.diff hsame
    have hff := hc.ffnd
    obtain ⟨e1, he1⟩ := hc.mono
    have hne : e1 ≠ [] := by intro h; rw [h] at he1; simp at he1; exact hsame he1
    have hfail : ∃ t, parseRest .fail kf wf fnd lr eoh fault = .err t fnd := by
      unfold parseRest
      cases hclf : contLoop .fail (lr.rest.length + 1) lr.line lr.nc eoh fnd ⟨lr.rest, fault⟩ with
      | inr p => rw [hclf] at hfe; simp [CRes.isErr] at hfe
      | inl pf =>
        obtain ⟨ef, ff⟩ := pf
        rw [hclf] at hff; simp only [contFnd] at hff; subst hff
        exact ⟨ef, rfl⟩
    obtain ⟨t, ht⟩ := hfail
    rw [ht]
    apply PSim.of_extends fnd _ t e1 hne
    -- the warn result extends fnd ++ e1
    unfold parseRest
    cases hclw : contLoop .warn (lr.rest.length + 1) lr.line lr.nc eoh fnd ⟨lr.rest, fault⟩ with
    | inl p => obtain ⟨e, f⟩ := p; rw [hclw] at he1; simp only [contFnd] at he1; exact ⟨[], by simp [ParseRes.fnd, he1]⟩
    | inr p =>
      obtain ⟨line, nc, eoh', fnd', s'⟩ := p
      rw [hclw] at he1; simp only [contFnd] at he1; subst he1
      simp only
      split
      · obtain ⟨e2, he2⟩ := afterLine_mono kw hm wf (fnd ++ e1 ++ [_]) nc eoh' s'
        exact ⟨_, by rw [he2, List.append_assoc]⟩
      · exact afterLine_mono kw hm _ _ _ _ _

theorem parseLoop_mono (fuel : Nat) : KMono (parseLoop .warn fuel) := by
  induction fuel with
  | zero => intro wf fnd s; exact ⟨[], by simp [parseLoop, ParseRes.fnd]⟩
  | succ k ih =>
    intro wf fnd s
    unfold parseLoop
    split
    · exact parseRest_mono _ ih _ _ _ _ _
    · split
      · exact ⟨[], by simp [ParseRes.fnd]⟩
      · split
        · split
          · exact ⟨[], by simp [ParseRes.fnd]⟩
          · obtain ⟨e, he⟩ := parseRest_mono (parseLoop .warn k) ih wf (fnd ++ [Tag.synMissingNewline]) (readLine .warn s) true s.fault
            exact ⟨_, by rw [he, List.append_assoc]⟩
        · obtain ⟨e, he⟩ := parseRest_mono (parseLoop .warn k) ih wf (fnd ++ [_]) (readLine .warn s) false s.fault
          exact ⟨_, by rw [he, List.append_assoc]⟩

theorem parseLoop_sim (fuel : Nat) : KSim (parseLoop .warn fuel) (parseLoop .fail fuel) := by
  induction fuel with
  | zero => intro wf fnd s; exact PSim.refl _ _ rfl
  | succ k ih =>
    intro wf fnd s
    have hm := parseLoop_mono k
    rcases readLine_rel s with hrl | ⟨hf, hw⟩
    · unfold parseLoop
      rw [hrl]
      cases he : (readLine Pol.fail s).err with
      | none => exact parseRest_sim _ _ ih hm _ _ _ _ _
      | some e =>
        simp only
        by_cases h1 : (e == Tag.reader) = true
        · simp only [h1, ↓reduceIte]; exact PSim.refl _ _ rfl
        · simp only [h1, Bool.false_eq_true, ↓reduceIte]
          by_cases h2 : (e == Tag.eoh) = true
          · simp only [h2, ↓reduceIte]
            by_cases h3 : (readLine Pol.fail s).line.isEmpty = true
            · simp only [h3, ↓reduceIte]; exact PSim.refl _ _ rfl
            · simp only [h3, Bool.false_eq_true, ↓reduceIte]
              obtain ⟨e2, he2⟩ := parseRest_mono (parseLoop .warn k) hm wf (fnd ++ [Tag.synMissingNewline]) (readLine .fail s) true s.fault
              exact PSim.of_more _ _ _ _ e2 (by rw [he2, List.append_assoc]; rfl)
          · simp only [h2, Bool.false_eq_true, ↓reduceIte]
            obtain ⟨e2, he2⟩ := parseRest_mono (parseLoop .warn k) hm wf (fnd ++ [e]) (readLine .fail s) false s.fault
            exact PSim.of_more _ _ _ _ e2 (by rw [he2, List.append_assoc]; rfl)
    · have hfail : parseLoop .fail (k + 1) wf fnd s = .err .synMissingCR fnd := by
        unfold parseLoop; simp [hf]
      rw [hfail]
      rcases hw with ⟨hwe, _, _, _⟩ | ⟨hwe, _⟩
      · unfold parseLoop
        simp only [hwe, show (Tag.synMissingCR == Tag.reader) = false by decide, show (Tag.synMissingCR == Tag.eoh) = false by decide,
          Bool.false_eq_true, ↓reduceIte]
        obtain ⟨e2, he2⟩ := parseRest_mono (parseLoop .warn k) hm wf (fnd ++ [Tag.synMissingCR]) (readLine .warn s) false s.fault
        exact PSim.of_more _ _ _ _ e2 (by rw [he2, List.append_assoc]; rfl)
      · unfold parseLoop
        simp only [hwe, show (Tag.reader == Tag.reader) = true by decide, ↓reduceIte]
        exact PSim.both_err _ _ _

/-- **the header parser under warn and under fail**: if warn reports nothing, fail returns the identical result
    (or both fail); if warn reports anything, fail returns an error -/
theorem parseFields_sim (s : Stream) : PSim [] (parseFields .warn s) (parseFields .fail s) :=
  parseLoop_sim _ _ _ _

end Gowarc
