import Gowarc.Lemmas.ParserSim
namespace Gowarc

/-! ## warn and fail tell one story — record level

`Sim mw mf`: `mw` is a computation under the warn policy, `mf` the same computation under fail, started in the same
state. Either warn recorded nothing new and both end identically (or both with an error), or warn recorded a finding
and fail ended with an error. Fail never records anything. -/

def exErr {α} : Except Tag α → Bool
  | .ok _ => false
  | .error _ => true

structure Sim {α} (mw mf : M α) : Prop where
  mono : ∀ s, ∃ extra, (mw s).2.fnd = s.fnd ++ extra
  ffnd : ∀ s, (mf s).2.fnd = s.fnd
  same : ∀ s, (mw s).2.fnd = s.fnd → mf s = mw s ∨ (exErr (mw s).1 = true ∧ exErr (mf s).1 = true)
  diff : ∀ s, (mw s).2.fnd ≠ s.fnd → exErr (mf s).1 = true

namespace Sim

theorem of_nofind {α} {m : M α} (h : NoFind m) : Sim m m :=
  ⟨fun s => ⟨[], by simp [h.h s]⟩, h.h, fun _ _ => .inl rfl, fun s hne => absurd (h.h s) hne⟩

theorem site (t : Tag) : Sim (Gowarc.site .warn t) (Gowarc.site .fail t) :=
  ⟨fun s => ⟨[t], rfl⟩, fun _ => rfl, fun s h => by simp at h, fun _ _ => rfl⟩

theorem condSite (c : Bool) (t : Tag) : Sim (Gowarc.condSite c .warn t) (Gowarc.condSite c .fail t) := by
  cases c
  · exact of_nofind ⟨fun _ => rfl⟩
  · exact site t

theorem bind {α β} {mw mf : M α} {kw kf : α → M β} (hm : Sim mw mf) (hk : ∀ a, Sim (kw a) (kf a)) :
    Sim (mw >>= kw) (mf >>= kf) := by
  refine ⟨?_, ?_, ?_, ?_⟩
  · intro s
    simp only [M.bind_def]
    obtain ⟨e1, he1⟩ := hm.mono s
    cases hw : mw s with
    | mk r s' =>
      rw [hw] at he1
      cases r with
      | error e => exact ⟨e1, he1⟩
      | ok a =>
        obtain ⟨e2, he2⟩ := (hk a).mono s'
        exact ⟨e1 ++ e2, by simp only; rw [he2, he1, List.append_assoc]⟩
  · intro s
    simp only [M.bind_def]
    have h1 := hm.ffnd s
    cases hf : mf s with
    | mk r s' =>
      rw [hf] at h1
      cases r with
      | error e => exact h1
      | ok a => simp only; rw [(hk a).ffnd s', h1]
  · intro s hs
    simp only [M.bind_def] at hs ⊢
    obtain ⟨e1, he1⟩ := hm.mono s
    cases hw : mw s with
    | mk rw' sw =>
      rw [hw] at hs he1
      -- no new findings overall implies none in the first part
      have h1 : sw.fnd = s.fnd := by
        cases rw' with
        | error e => exact hs
        | ok a =>
          simp only at hs
          obtain ⟨e2, he2⟩ := (hk a).mono sw
          rw [he2, he1] at hs
          have : e1 ++ e2 = [] := by
            have := congrArg List.length hs; simp at this
            cases e1 <;> cases e2 <;> simp_all
          have : e1 = [] := by cases e1 <;> simp_all
          rw [he1, this]; simp
      rcases hm.same s (by rw [hw]; exact h1) with heq | ⟨hwe, hfe⟩
      · rw [heq, hw]
        cases rw' with
        | error e => left; rfl
        | ok a =>
          simp only at hs ⊢
          have hs' : (kw a sw).2.fnd = sw.fnd := by rw [hs, h1]
          exact (hk a).same sw hs'
      · right
        rw [hw] at hwe
        cases rw' with
        | ok a => simp [exErr] at hwe
        | error e =>
          refine ⟨rfl, ?_⟩
          cases hf : mf s with
          | mk rf sf =>
            rw [hf] at hfe
            cases rf with
            | ok a => simp [exErr] at hfe
            | error e' => rfl
  · intro s hs
    simp only [M.bind_def] at hs ⊢
    by_cases h1 : (mw s).2.fnd = s.fnd
    · -- the first part recorded nothing: the finding comes from the continuation
      rcases hm.same s h1 with heq | ⟨hwe, hfe⟩
      · rw [heq]
        cases hw : mw s with
        | mk rw' sw =>
          rw [hw] at hs h1
          cases rw' with
          | error e => exact absurd h1 hs
          | ok a =>
            simp only at hs ⊢
            exact (hk a).diff sw (by rw [h1]; exact hs)
      · cases hf : mf s with
        | mk rf sf =>
          rw [hf] at hfe
          cases rf with
          | ok a => simp [exErr] at hfe
          | error e' => rfl
    · have := hm.diff s h1
      cases hf : mf s with
      | mk rf sf =>
        rw [hf] at this
        cases rf with
        | ok a => simp [exErr] at this
        | error e' => rfl

theorem ite {α} {c : Prop} [Decidable c] {mw1 mf1 mw2 mf2 : M α} (h1 : Sim mw1 mf1) (h2 : Sim mw2 mf2) :
    Sim (if c then mw1 else mw2) (if c then mf1 else mf2) := by split <;> assumption

end Sim

/-- all four axes at one level -/
def Opts.uni (o : Opts) (p : Pol) : Opts := { o with syn := p, spec := p, unk := p, blk := p }

end Gowarc

namespace Gowarc

@[simp] theorem uni_syn (o : Opts) (p : Pol) : (o.uni p).syn = p := rfl
@[simp] theorem uni_spec (o : Opts) (p : Pol) : (o.uni p).spec = p := rfl
@[simp] theorem uni_unk (o : Opts) (p : Pol) : (o.uni p).unk = p := rfl
@[simp] theorem uni_blk (o : Opts) (p : Pol) : (o.uni p).blk = p := rfl
@[simp] theorem uni_skip (o : Opts) (p : Pol) : (o.uni p).skipParseBlock = o.skipParseBlock := rfl
@[simp] theorem uni_addDig (o : Opts) (p : Pol) : (o.uni p).addMissingDigest = o.addMissingDigest := rfl
@[simp] theorem uni_fixCL (o : Opts) (p : Pol) : (o.uni p).fixContentLength = o.fixContentLength := rfl
@[simp] theorem uni_fixDig (o : Opts) (p : Pol) : (o.uni p).fixDigest = o.fixDigest := rfl
@[simp] theorem uni_fixSyn (o : Opts) (p : Pol) : (o.uni p).fixSyntaxErrors = o.fixSyntaxErrors := rfl
@[simp] theorem uni_fixWf (o : Opts) (p : Pol) : (o.uni p).fixWarcFieldsBlockErrors = o.fixWarcFieldsBlockErrors := rfl
@[simp] theorem uni_alg (o : Opts) (p : Pol) : (o.uni p).defaultAlg = o.defaultAlg := rfl
@[simp] theorem uni_enc (o : Opts) (p : Pol) : (o.uni p).defaultEnc = o.defaultEnc := rfl

macro "simstep" : tactic => `(tactic| repeat' (first
  | assumption
  | exact Sim.site _
  | exact Sim.condSite _ _
  | exact Sim.of_nofind NoFind.hdr
  | exact Sim.of_nofind NoFind.get
  | exact Sim.of_nofind (NoFind.pure _)
  | exact Sim.of_nofind (NoFind.fail _)
  | exact Sim.of_nofind (NoFind.setHdr _)
  | exact Sim.of_nofind (NoFind.condFail _ _)
  | with_reducible apply Sim.bind
  | with_reducible apply Sim.ite
  | intro _
  | with_reducible split))

theorem resolveRecordType_sim (o : Opts) : Sim (resolveRecordType (o.uni .warn)) (resolveRecordType (o.uni .fail)) := by
  unfold resolveRecordType; simp only [uni_spec, uni_unk]; simstep

theorem validateFieldsLoop_sim (o : Opts) (Ω : Oracles) (v rt : Nat) (l : Fields) :
    Sim (validateFieldsLoop (o.uni .warn) Ω v rt l) (validateFieldsLoop (o.uni .fail) Ω v rt l) := by
  induction l with
  | nil => unfold validateFieldsLoop; simstep
  | cons nv rest ih => obtain ⟨n, w⟩ := nv; unfold validateFieldsLoop; simp only [uni_spec]; simstep

theorem requiredLoop_sim (o : Opts) (l : List String) : Sim (requiredLoop (o.uni .warn) l) (requiredLoop (o.uni .fail) l) := by
  induction l with
  | nil => unfold requiredLoop; simstep
  | cons x rest ih => unfold requiredLoop; simp only [uni_spec]; simstep

theorem validateSpec_sim (o : Opts) (Ω : Oracles) (v rt : Nat) :
    Sim (validateSpec (o.uni .warn) Ω v rt) (validateSpec (o.uni .fail) Ω v rt) := by
  unfold validateSpec; simp only [uni_spec]
  simstep
  · exact validateFieldsLoop_sim o Ω v rt _
  · exact requiredLoop_sim o _

theorem validateHeader_sim (o : Opts) (Ω : Oracles) (v : Nat) :
    Sim (validateHeader (o.uni .warn) Ω v) (validateHeader (o.uni .fail) Ω v) := by
  unfold validateHeader
  simp only [uni_spec, show (Pol.warn != Pol.ignore) = true by decide, show (Pol.fail != Pol.ignore) = true by decide, ↓reduceIte]
  have := resolveRecordType_sim o
  simstep
  exact validateSpec_sim o Ω v _

theorem digestFromField_sim (o : Opts) (f : Bytes) : Sim (digestFromField (o.uni .warn) f) (digestFromField (o.uni .fail) f) := by
  have h1 : digestFromField (o.uni .warn) f = digestFromField o f := rfl
  have h2 : digestFromField (o.uni .fail) f = digestFromField o f := rfl
  rw [h1, h2]; exact Sim.of_nofind (digestFromField_nofind o f)

theorem newHttpBlock_sim (o : Opts) (Ω : Oracles) (c : Bytes) (bd pd : Digest) :
    Sim (newHttpBlock (o.uni .warn) Ω c bd pd) (newHttpBlock (o.uni .fail) Ω c bd pd) := by
  unfold newHttpBlock; simp only [uni_syn, uni_blk, uni_fixSyn]; simstep

theorem wfFindings_mono (l : List Tag) (s : St) : wfFindings l s = (.ok (), ⟨s.hdr, s.fnd ++ l.map (fun _ => Tag.wfBlock)⟩) := by
  induction l generalizing s with
  | nil => simp [wfFindings]
  | cons x rest ih => simp [wfFindings, ih, List.append_assoc]

/-- the inner parse of a warc-fields block and what the block axis makes of it: warn vs fail -/
theorem wfFinish_sim (fixWf : Bool) (c : Bytes) (bd : Digest) (rw rf : ParseRes) (hp : PSim [] rw rf) :
    Sim (wfFinish .warn fixWf c bd rw) (wfFinish .fail fixWf c bd rf) := by
  have hfnd : ∀ r : ParseRes, r.findings = r.fnd := fun r => by cases r <;> rfl
  by_cases hsame : rw.fnd = []
  · rcases hp.same hsame with heq | ⟨hwe, hfe⟩
    · subst heq
      unfold wfFinish
      have hn : rf.findings = [] := by rw [hfnd]; exact hsame
      simp only [wfReport, hn, wfFindings, List.isEmpty_nil, Bool.not_true]
      simstep
    · cases rw with
      | ok a b d => simp [ParseRes.isErr] at hwe
      | err tw fw =>
        cases rf with
        | ok a b d => simp [ParseRes.isErr] at hfe
        | err tf ff =>
          have hfw : fw = [] := hsame
          have hff : ff = [] := hp.ffnd
          subst hfw hff
          unfold wfFinish
          simp only [wfReport, ParseRes.findings, wfFindings, ParseRes.errTag, List.isEmpty_nil, Bool.not_true]
          exact ⟨fun s => ⟨[], by simp [condFail]⟩, fun s => by simp [condFail],
            fun s _ => .inr ⟨by simp [condFail, exErr], by simp [condFail, exErr]⟩, fun s h => absurd (by simp [condFail]) h⟩
  · have hfe := hp.diff hsame
    cases rf with
    | ok a b d => simp [ParseRes.isErr] at hfe
    | err tf ff =>
      have hff : ff = [] := hp.ffnd
      subst hff
      have hwne : rw.findings ≠ [] := by rw [hfnd]; exact hsame
      have hlen : (rw.findings.map (fun _ => Tag.wfBlock)) ≠ [] := fun he => hwne (List.map_eq_nil_iff.mp he)
      have hfail : ∀ s, wfFinish .fail fixWf c bd (.err tf []) s = (.error tf, s) := by
        intro s; simp [wfFinish, wfReport, ParseRes.findings, ParseRes.errTag, condFail]
      have hwarn : ∀ s, (wfFinish .warn fixWf c bd rw s).2.fnd = s.fnd ++ rw.findings.map (fun _ => Tag.wfBlock) := by
        intro s
        unfold wfFinish
        simp only [wfReport, M.bind_def, wfFindings_mono]
        cases rw.errTag <;> rfl
      refine ⟨fun s => ⟨_, hwarn s⟩, fun s => by rw [hfail], fun s h => ?_, fun s _ => by rw [hfail]; rfl⟩
      exfalso
      rw [hwarn s] at h
      have := congrArg List.length h
      simp at this
      exact hlen (List.eq_nil_of_length_eq_zero (by simpa using this))

theorem newWarcFieldsBlock_sim (o : Opts) (c : Bytes) (fault : Bool) (bd : Digest) :
    Sim (newWarcFieldsBlock (o.uni .warn) c fault bd) (newWarcFieldsBlock (o.uni .fail) c fault bd) := by
  rw [newWarcFieldsBlock_not_ignore _ _ _ _ (by simp [uni_syn]), newWarcFieldsBlock_not_ignore _ _ _ _ (by simp [uni_syn])]
  simp only [uni_syn, uni_blk, uni_fixWf]
  apply Sim.bind (Sim.condSite _ _)
  intro _
  exact wfFinish_sim _ _ _ _ _ (parseFields_sim ⟨c, false⟩)

theorem parseBlock_sim (o : Opts) (Ω : Oracles) (rt : Nat) (c : Bytes) (fault : Bool) :
    Sim (parseBlock (o.uni .warn) Ω rt c fault) (parseBlock (o.uni .fail) Ω rt c fault) := by
  unfold parseBlock
  simp only [uni_skip]
  apply Sim.bind (digestFromField_sim o _); intro bd
  apply Sim.bind (digestFromField_sim o _); intro pd
  apply Sim.bind (Sim.of_nofind NoFind.hdr); intro h
  by_cases h1 : (!o.skipParseBlock && rt &&& Gen.httpBlockMask != 0 && hasPrefix (bs Gen.c_ApplicationHttp) (lowerKey (h.get (bs "Content-Type")))) = true
  · simp only [h1, ↓reduceIte]; exact newHttpBlock_sim o Ω _ _ _
  · simp only [h1, Bool.false_eq_true, ↓reduceIte]
    by_cases h2 : (!o.skipParseBlock && rt == RT_Revisit) = true
    · simp only [h2, ↓reduceIte]
      by_cases h3 : fault = true
      · simp only [h3, ↓reduceIte]; exact Sim.of_nofind (NoFind.fail _)
      · simp only [h3, Bool.false_eq_true, ↓reduceIte]; exact Sim.of_nofind (NoFind.pure _)
    · simp only [h2, Bool.false_eq_true, ↓reduceIte]
      by_cases h3 : (!o.skipParseBlock && hasPrefix (bs Gen.c_ApplicationWarcFields) (lowerKey (h.get (bs "Content-Type")))) = true
      · simp only [h3, ↓reduceIte]; exact newWarcFieldsBlock_sim o _ _ _
      · simp only [h3, Bool.false_eq_true, ↓reduceIte]; exact Sim.of_nofind (NoFind.pure _)

section
variable (H : Alg → Bytes → Bytes)

theorem checkDigest_sim (o : Opts) (f : Bytes) (t : Tag) (d : Digest) (data : Bytes) :
    Sim (checkDigest H (o.uni .warn) f t d data) (checkDigest H (o.uni .fail) f t d data) := by
  unfold checkDigest
  simp only [uni_spec, uni_addDig, uni_fixDig, show (Pol.warn != Pol.ignore) = true by decide,
    show (Pol.fail != Pol.ignore) = true by decide, Bool.true_and]
  simstep

theorem validateDigest_sim (o : Opts) (rt : Nat) (b : Block) (fault : Bool) :
    Sim (validateDigest H (o.uni .warn) rt b fault) (validateDigest H (o.uni .fail) rt b fault) := by
  unfold validateDigest lengthBad
  simp only [uni_spec, uni_fixCL, show (Pol.warn != Pol.ignore) = true by decide,
    show (Pol.fail != Pol.ignore) = true by decide, Bool.true_and]
  simstep
  all_goals first
    | exact checkDigest_sim H o _ _ _ _
    | exact Sim.of_nofind (NoFind.condFail _ _)

theorem versionOf_sim (o : Opts) (txt : Bytes) : Sim (versionOf (o.uni .warn) txt) (versionOf (o.uni .fail) txt) := by
  unfold versionOf; simp only [uni_spec]; simstep

end
end Gowarc

namespace Gowarc
section
variable (H : Alg → Bytes → Bytes)

theorem unmarshalTail_sim (o : Opts) (Ω : Oracles) (vt : Bytes) (vi : Nat) (fs : Fields) (s' : Stream) :
    Sim (unmarshalTail H (o.uni .warn) Ω vt vi fs s') (unmarshalTail H (o.uni .fail) Ω vt vi fs s') := by
  unfold unmarshalTail
  simp only [uni_spec]
  simstep
  all_goals first
    | exact validateHeader_sim o Ω _
    | exact parseBlock_sim o Ω _ _ _
    | exact validateDigest_sim H o _ _ _

/-- warn recorded findings `fw ≠ []` at this point and goes on; fail stops with an error -/
theorem Sim.warn_more {α} (mw : M α) (t : Tag) (fw : List Tag) (hne : fw ≠ [])
    (hmono : ∀ s, ∃ e, (mw s).2.fnd = s.fnd ++ fw ++ e) : Sim mw (M.fail t) := by
  refine ⟨fun s => ?_, fun _ => rfl, fun s h => ?_, fun _ _ => rfl⟩
  · obtain ⟨e, he⟩ := hmono s; exact ⟨fw ++ e, by rw [he, List.append_assoc]⟩
  · exfalso
    obtain ⟨e, he⟩ := hmono s
    rw [he, List.append_assoc] at h
    have := congrArg List.length h
    simp only [List.length_append] at this
    exact hne (List.eq_nil_of_length_eq_zero (by omega))

theorem unmarshalRest_sim (o : Opts) (Ω : Oracles) (vt : Bytes) (vi : Nat) (rw rf : ParseRes) (hp : PSim [] rw rf) :
    Sim (unmarshalRest H (o.uni .warn) Ω vt vi rw) (unmarshalRest H (o.uni .fail) Ω vt vi rf) := by
  by_cases hsame : rw.fnd = []
  · rcases hp.same hsame with heq | ⟨hwe, hfe⟩
    · subst heq
      unfold unmarshalRest
      cases rf with
      | err t fnd => exact Sim.of_nofind (by simp only [ParseRes.fnd] at hsame; subst hsame; nofind')
      | ok fs fnd s' =>
        simp only [ParseRes.fnd] at hsame; subst hsame
        apply Sim.bind (Sim.of_nofind NoFind.addNil); intro _
        exact unmarshalTail_sim H o Ω vt vi fs s'
    · cases rw with
      | ok a b d => simp [ParseRes.isErr] at hwe
      | err tw fw =>
        cases rf with
        | ok a b d => simp [ParseRes.isErr] at hfe
        | err tf ff =>
          have hfw : fw = [] := hsame
          have hff : ff = [] := hp.ffnd
          subst hfw hff
          unfold unmarshalRest
          exact ⟨fun s => ⟨[], by simp⟩, fun s => by simp, fun s _ => .inr ⟨by simp [exErr], by simp [exErr]⟩,
            fun s h => absurd (by simp) h⟩
  · have hfe := hp.diff hsame
    cases rf with
    | ok a b d => simp [ParseRes.isErr] at hfe
    | err tf ff =>
      have hff : ff = [] := hp.ffnd
      subst hff
      have hf : unmarshalRest H (o.uni .fail) Ω vt vi (.err tf []) = M.fail tf := by
        funext s; simp [unmarshalRest]
      rw [hf]
      apply Sim.warn_more _ tf rw.fnd hsame
      intro s
      unfold unmarshalRest
      cases rw with
      | err t fnd => exact ⟨[], by simp [ParseRes.fnd]⟩
      | ok fs fnd s' =>
        simp only [M.bind_def, M.addFindings_def, ParseRes.fnd]
        obtain ⟨e, he⟩ := (unmarshalTail_sim H o Ω vt vi fs s').mono ⟨s.hdr, s.fnd ++ fnd⟩
        exact ⟨e, he⟩

theorem unmarshalBody_sim (o : Opts) (Ω : Oracles) (s : Stream) (vl : Bytes) :
    Sim (unmarshalBody H (o.uni .warn) Ω s vl) (unmarshalBody H (o.uni .fail) Ω s vl) := by
  unfold unmarshalBody
  simp only [uni_syn]
  apply Sim.bind (Sim.condSite _ _); intro _
  apply Sim.bind (versionOf_sim o _); intro v
  exact unmarshalRest_sim H o Ω _ _ _ _ (parseFields_sim s)

/-- the relation between the results of Unmarshal under warn (`w`) and under fail (`f`) from accumulated findings `fnd0` -/
structure URel (fnd0 : List Tag) (w f : URes) : Prop where
  mono : ∃ e, w.fnd = fnd0 ++ e
  same : w.fnd = fnd0 → f.err.isSome = w.err.isSome
  diff : w.fnd ≠ fnd0 → f.err.isSome = true

theorem afterMagic_rel (o : Opts) (Ω : Oracles) (off : Nat) (fnd0 : List Tag) (after : Stream) :
    URel fnd0 (unmarshalAfterMagic H (o.uni .warn) Ω off fnd0 after) (unmarshalAfterMagic H (o.uni .fail) Ω off fnd0 after) := by
  unfold unmarshalAfterMagic
  split
  · exact ⟨⟨[], by simp⟩, fun _ => rfl, fun h => absurd rfl h⟩
  · have hs := unmarshalBody_sim H o Ω ⟨(readBytesNL after.rest).2.1, after.fault⟩ (readBytesNL after.rest).1
    have hmono := hs.mono ⟨[], fnd0⟩
    have hsame := hs.same ⟨[], fnd0⟩
    have hdiff := hs.diff ⟨[], fnd0⟩
    cases hw : unmarshalBody H (o.uni .warn) Ω ⟨(readBytesNL after.rest).2.1, after.fault⟩ (readBytesNL after.rest).1 ⟨[], fnd0⟩ with
    | mk rw sw =>
      cases hf : unmarshalBody H (o.uni .fail) Ω ⟨(readBytesNL after.rest).2.1, after.fault⟩ (readBytesNL after.rest).1 ⟨[], fnd0⟩ with
      | mk rf sf =>
        rw [hw] at hmono hsame hdiff
        rw [hf] at hsame hdiff
        simp only at hmono hsame hdiff
        refine ⟨?_, ?_, ?_⟩
        · cases rw with
          | ok p => obtain ⟨r, rest⟩ := p; exact hmono
          | error t => exact hmono
        · intro h
          have h' : sw.fnd = fnd0 := by
            cases rw with
            | ok p => obtain ⟨r, rest⟩ := p; exact h
            | error t => exact h
          rcases hsame h' with heq | ⟨he1, he2⟩
          · have h1 : rf = rw := congrArg Prod.fst heq
            subst h1
            cases rf with
            | ok p => obtain ⟨r, rest⟩ := p; rfl
            | error t => rfl
          · cases rw with
            | ok p => simp [exErr] at he1
            | error t =>
              cases rf with
              | ok p => simp [exErr] at he2
              | error t' => rfl
        · intro h
          have h' : sw.fnd ≠ fnd0 := by
            cases rw with
            | ok p => obtain ⟨r, rest⟩ := p; exact h
            | error t => exact h
          have := hdiff h'
          cases rf with
          | ok p => simp [exErr] at this
          | error t' => rfl

theorem gzFinish_rel (fnd0 : List Tag) (w f : URes) (bad : Bool) (rest : Bytes) (h : URel fnd0 w f) :
    URel fnd0 (gzFinish w bad rest) (gzFinish f bad rest) := by
  have hw : (gzFinish w bad rest).fnd = w.fnd := gzFinish_fnd w bad rest
  have hwe : (gzFinish w bad rest).err.isSome = (w.err.isSome || bad) := by
    unfold gzFinish; cases hx : w.err <;> cases bad <;> simp [hx]
  have hfe : (gzFinish f bad rest).err.isSome = (f.err.isSome || bad) := by
    unfold gzFinish; cases hx : f.err <;> cases bad <;> simp [hx]
  refine ⟨by rw [hw]; exact h.mono, fun hh => ?_, fun hh => ?_⟩
  · rw [hw] at hh; rw [hwe, hfe, h.same hh]
  · rw [hw] at hh; rw [hfe, h.diff hh]; rfl

/-- **C08, parser**: under uniform policies, Unmarshal at fail returns an error exactly when Unmarshal at warn returns an
    error or records at least one finding — for every input stream, reader fault, option setting and codec verdict. -/
theorem unmarshal_fail_iff_warn (o : Opts) (Ω : Oracles) (s : Stream) :
    (unmarshal H (o.uni .fail) Ω s).err.isSome = true ↔
      ((unmarshal H (o.uni .warn) Ω s).err.isSome = true ∨ (unmarshal H (o.uni .warn) Ω s).fnd ≠ []) := by
  unfold unmarshal
  simp only [uni_syn]
  cases hsk : skipJunk (s.rest.length + 1) s.rest 0 with
  | inl off =>
    simp only [show (Pol.fail == Pol.fail) = true by decide, show (Pol.warn == Pol.fail) = false by decide, Bool.true_and, Bool.false_and]
    by_cases hoff : off > 0 <;> simp [hoff]
  | inr p =>
    obtain ⟨off, atMagic⟩ := p
    simp only [show (Pol.fail == Pol.fail) = true by decide, show (Pol.warn == Pol.fail) = false by decide, Bool.true_and, Bool.false_and,
      show (Pol.warn != Pol.ignore) = true by decide, show (Pol.fail != Pol.ignore) = true by decide, Bool.false_eq_true, ↓reduceIte]
    by_cases hoff : off > 0
    · -- junk before the record: fail refuses, warn records it
      have hne : (off != 0) = true := by simp; omega
      simp only [hoff, decide_true, ↓reduceIte, hne, Option.isSome_some, true_iff]
      right
      -- every branch under warn keeps the junk finding
      have key : ∀ u : URes, (∃ e, u.fnd = [Tag.synJunk] ++ e) → u.fnd ≠ [] := by
        intro u ⟨e, he⟩ h; rw [he] at h; simp at h
      split
      · split
        · exact key _ ⟨[], rfl⟩
        · exact key _ ⟨[], rfl⟩
        · split
          · exact key _ ⟨[], rfl⟩
          · split
            · exact key _ ⟨[], rfl⟩
            · apply key; rw [gzFinish_fnd]; exact (afterMagic_rel H o Ω off [Tag.synJunk] _).mono
      · exact key _ (afterMagic_rel H o Ω off [Tag.synJunk] _).mono
    · have h0 : off = 0 := by omega
      subst h0
      simp only [Nat.lt_irrefl, decide_false, ↓reduceIte, bne_self_eq_false, Bool.false_eq_true]
      have fin : ∀ w f : URes, URel [] w f → (f.err.isSome = true ↔ (w.err.isSome = true ∨ w.fnd ≠ [])) := by
        intro w f h
        by_cases hw : w.fnd = []
        · rw [h.same hw]; simp [hw]
        · simp [h.diff hw, hw]
      split
      · split
        · simp
        · simp
        · split
          · simp
          · split
            · simp
            · exact fin _ _ (gzFinish_rel [] _ _ _ _ (afterMagic_rel H o Ω 0 [] _))
      · exact fin _ _ (afterMagic_rel H o Ω 0 [] _)

end
end Gowarc

namespace Gowarc
section
variable (H : Alg → Bytes → Bytes)

theorem build_eq (o : Opts) (Ω : Oracles) (vt : Bytes) (vi rt0 : Nat) (hdr : Fields) (c id : Bytes) :
    build H o Ω vt vi rt0 hdr c id =
      (match buildBody H o Ω vt vi rt0
        (o.addMissingContentLength && !(if o.addMissingRecordId && !hdr.has (bs "WARC-Record-ID") then hdr.setId (bs "WARC-Record-ID") id else hdr).has (bs "Content-Length")) c
        ⟨(if o.addMissingContentLength && !(if o.addMissingRecordId && !hdr.has (bs "WARC-Record-ID") then hdr.setId (bs "WARC-Record-ID") id else hdr).has (bs "Content-Length")
           then setInt (if o.addMissingRecordId && !hdr.has (bs "WARC-Record-ID") then hdr.setId (bs "WARC-Record-ID") id else hdr) (bs "Content-Length") c.length
           else (if o.addMissingRecordId && !hdr.has (bs "WARC-Record-ID") then hdr.setId (bs "WARC-Record-ID") id else hdr)), []⟩ with
       | (.ok r, st) => ⟨some r, st.fnd, none⟩
       | (.error t, st) => ⟨none, st.fnd, some t⟩) := rfl

theorem buildBody_sim (o : Opts) (Ω : Oracles) (vt : Bytes) (vi rt0 : Nat) (cla : Bool) (c : Bytes) :
    Sim (buildBody H (o.uni .warn) Ω vt vi rt0 cla c) (buildBody H (o.uni .fail) Ω vt vi rt0 cla c) := by
  unfold buildBody
  simstep
  all_goals first
    | exact validateHeader_sim o Ω _
    | exact parseBlock_sim o Ω _ _ _
    | exact validateDigest_sim H o _ _ _

/-- **C08, builder**: Build at fail returns an error exactly when Build at warn returns an error or records a finding -/
theorem build_fail_iff_warn (o : Opts) (Ω : Oracles) (vt : Bytes) (vi rt0 : Nat) (hdr : Fields) (c id : Bytes) :
    (build H (o.uni .fail) Ω vt vi rt0 hdr c id).err.isSome = true ↔
      ((build H (o.uni .warn) Ω vt vi rt0 hdr c id).err.isSome = true ∨ (build H (o.uni .warn) Ω vt vi rt0 hdr c id).fnd ≠ []) := by
  rw [build_eq, build_eq]
  have hs := buildBody_sim H o Ω vt vi rt0 (o.addMissingContentLength && !(if o.addMissingRecordId && !hdr.has (bs "WARC-Record-ID") then hdr.setId (bs "WARC-Record-ID") id else hdr).has (bs "Content-Length")) c
  have e1 : ∀ p, (o.uni p).addMissingContentLength = o.addMissingContentLength := fun _ => rfl
  have e2 : ∀ p, (o.uni p).addMissingRecordId = o.addMissingRecordId := fun _ => rfl
  simp only [e1, e2]
  generalize (o.addMissingContentLength && !Fields.has (if (o.addMissingRecordId && !Fields.has hdr (bs "WARC-Record-ID")) = true then
      Fields.setId hdr (bs "WARC-Record-ID") id else hdr) (bs "Content-Length")) = cla at hs ⊢
  generalize (if cla = true then _ else _ : Fields) = h0
  have hmono := hs.mono ⟨h0, []⟩
  have hsame := hs.same ⟨h0, []⟩
  have hdiff := hs.diff ⟨h0, []⟩
  cases hw : buildBody H (o.uni .warn) Ω vt vi rt0 cla c ⟨h0, []⟩ with
  | mk rw sw =>
    cases hf : buildBody H (o.uni .fail) Ω vt vi rt0 cla c ⟨h0, []⟩ with
    | mk rf sf =>
      rw [hw] at hmono hsame hdiff
      rw [hf] at hsame hdiff
      simp only at hmono hsame hdiff
      by_cases hsw : sw.fnd = []
      · rcases hsame hsw with heq | ⟨he1, he2⟩
        · have h1 : rf = rw := congrArg Prod.fst heq
          subst h1
          cases rf <;> simp [hsw]
        · cases rw with
          | ok r => simp [exErr] at he1
          | error t =>
            cases rf with
            | ok r => simp [exErr] at he2
            | error t' => simp
      · have := hdiff hsw
        cases rf with
        | ok r => simp [exErr] at this
        | error t' => cases rw <;> simp [hsw]

end
end Gowarc
