import Gowarc.Model.Basic
/-! `decide` over all 256 byte values: core has no `Fintype UInt8`, but `∀ v : BitVec 8` is decidable. -/
namespace Gowarc

theorem forall_uint8 (P : UInt8 → Prop) (h : ∀ v : BitVec 8, P (UInt8.ofBitVec v)) : ∀ b : UInt8, P b := by
  intro b; exact h b.toBitVec

instance instDecidableForallUInt8 (P : UInt8 → Prop) [DecidablePred P] : Decidable (∀ b : UInt8, P b) :=
  decidable_of_iff (∀ v : BitVec 8, P (UInt8.ofBitVec v)) ⟨forall_uint8 P, fun h _ => h _⟩

end Gowarc
