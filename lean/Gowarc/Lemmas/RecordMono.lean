/-
  Monotone rejection, record level: every step of header validation and block parsing under a pointwise more lenient
  policy setting returns the same value as under the stricter one whenever the stricter one returns at all.
-/
import Gowarc.Lemmas.MonoPol
import Gowarc.Lemmas.RecordSim
namespace Gowarc

/-- a lenient side that does nothing against a strict side that only observes -/
theorem Rel.pure_left {mS : M Unit} (h : KeepHdr mS) : Mono (Pure.pure () : M Unit) mS := by
  constructor
  intro sL sS hP b sS' hS
  have := h.h sS
  rw [hS] at this
  exact ⟨sL, rfl, by rw [hP]; exact this.symm⟩

theorem Pol.le_refl (p : Pol) : p.le p = true := by cases p <;> rfl

theorem Pol.le_ne_ignore {pL pS : Pol} (h : pL.le pS = true) (hL : pL ≠ .ignore) : pS ≠ .ignore := by
  cases pL <;> cases pS <;> simp_all [Pol.le]

/-! ### the header parser along the syntax axis -/

/-- whatever the stricter syntax policy accepts, the more lenient one accepts with the same fields and the same rest;
    and a clean strict parse means a clean lenient parse -/
theorem parseFields_le (pL pS : Pol) (h : pL.le pS = true) (s : Stream) (fs : Fields) (fS : List Tag) (s' : Stream)
    (hS : parseFields pS s = .ok fs fS s') : ∃ fL, parseFields pL s = .ok fs fL s' ∧ (fS = [] → fL = []) := by
  have wf : ∀ fs fS s', parseFields .fail s = .ok fs fS s' → parseFields .warn s = .ok fs fS s' ∧ fS = [] := by
    intro fs fS s' hS
    have hp := parseFields_sim s
    have hfS : fS = [] := by have := hp.ffnd; rw [hS] at this; exact this
    by_cases hw : (parseFields .warn s).fnd = []
    · rcases hp.same hw with heq | ⟨_, hfe⟩
      · rw [← heq]; exact ⟨hS, hfS⟩
      · rw [hS] at hfe; simp [ParseRes.isErr] at hfe
    · have := hp.diff hw; rw [hS] at this; simp [ParseRes.isErr] at this
  have iw : ∀ fs fS s', parseFields .warn s = .ok fs fS s' → ∃ fL, parseFields .ignore s = .ok fs fL s' ∧ fL = [] := by
    intro fs fS s' hS
    obtain ⟨fL, hL⟩ := parseFields_iw s fs fS s' hS
    have := parseFields_nofind .ignore (by decide) s
    rw [hL] at this
    exact ⟨fL, hL, this⟩
  cases pL <;> cases pS <;> simp [Pol.le] at h
  · exact ⟨fS, hS, id⟩
  · obtain ⟨fL, hL, hn⟩ := iw fs fS s' hS; exact ⟨fL, hL, fun _ => hn⟩
  · obtain ⟨hW, _⟩ := wf fs fS s' hS
    obtain ⟨fL, hL, hn⟩ := iw fs fS s' hW; exact ⟨fL, hL, fun _ => hn⟩
  · exact ⟨fS, hS, id⟩
  · obtain ⟨hW, hn⟩ := wf fs fS s' hS; exact ⟨fS, hW, id⟩
  · exact ⟨fS, hS, id⟩

/-! ### warc-fields blocks -/

def wfBlockOf (fixWf : Bool) (c : Bytes) (bd : Digest) (fs : Fields) (f : List Tag) : Block :=
  { kind := .warcFields, raw := if fixWf && !f.isEmpty then fs.write else c, headLen := 0, blockDigest := bd, payloadDigest := none }

theorem wfReport_keep (blk : Pol) (l : List Tag) : KeepHdr (wfReport blk l) := by
  cases blk
  · exact KeepHdr.pure ()
  · exact wfFindings_keep l
  · exact KeepHdr.condFail _ _

theorem wfFinish_ok (blk : Pol) (fixWf : Bool) (c : Bytes) (bd : Digest) (res : ParseRes) (s s' : St) (b : Block)
    (h : wfFinish blk fixWf c bd res s = (.ok b, s')) :
    ∃ fs f st, res = .ok fs f st ∧ b = wfBlockOf fixWf c bd fs f ∧ (blk = .fail → f = []) ∧ s'.hdr = s.hdr := by
  unfold wfFinish at h
  obtain ⟨_, t1, h1, h⟩ := bind_ok _ _ _ _ _ h
  cases res with
  | err t f => simp [ParseRes.errTag] at h
  | ok fs f st =>
    simp only [ParseRes.errTag, ParseRes.fieldsOpt, ParseRes.findings, M.pure_def, Prod.mk.injEq, Except.ok.injEq] at h h1
    refine ⟨fs, f, st, rfl, h.1.symm, ?_, ?_⟩
    · intro hb
      subst hb
      cases f with
      | nil => rfl
      | cons x xs => simp [wfReport, condFail] at h1
    · have := (wfReport_keep blk f).h s
      rw [h1] at this
      rw [← h.2]; exact this

theorem wfFinish_run (blk : Pol) (fixWf : Bool) (c : Bytes) (bd : Digest) (fs : Fields) (f : List Tag) (st : Stream) (s : St)
    (hb : blk = .fail → f = []) :
    ∃ s', wfFinish blk fixWf c bd (.ok fs f st) s = (.ok (wfBlockOf fixWf c bd fs f), s') ∧ s'.hdr = s.hdr := by
  unfold wfFinish
  simp only [ParseRes.errTag, ParseRes.fieldsOpt, ParseRes.findings, M.bind_def]
  cases blk with
  | ignore => exact ⟨s, rfl, rfl⟩
  | warn =>
    simp only [wfReport, wfFindings_mono]
    exact ⟨_, rfl, rfl⟩
  | fail =>
    rw [hb rfl]
    exact ⟨s, rfl, rfl⟩

/-- the block WithFixWarcFieldsBlockErrors leaves behind does not depend on the syntax policy that accepted it -/
theorem wfDetect_agree (fixWf : Bool) (c : Bytes) (bd : Digest) (fs : Fields) (fL fS : List Tag) (st : Stream) (pL pS : Pol)
    (hsyn : pL.le pS = true)
    (hresL : parseFields pL ⟨c, false⟩ = .ok fs fL st) (hres : parseFields pS ⟨c, false⟩ = .ok fs fS st) (hn : fS = [] → fL = []) :
    (if (fixWf && pL == Pol.ignore) = true then wfDetectFix c (wfBlockOf fixWf c bd fs fL) else wfBlockOf fixWf c bd fs fL) =
    (if (fixWf && pS == Pol.ignore) = true then wfDetectFix c (wfBlockOf fixWf c bd fs fS) else wfBlockOf fixWf c bd fs fS) := by
  cases pL <;> cases pS <;> simp [Pol.le] at hsyn
  · -- ignore / ignore
    rw [hres] at hresL
    simp only [ParseRes.ok.injEq, true_and] at hresL
    rw [hresL.1]
  · -- ignore / warn
    have hfL : fL = [] := by
      have := parseFields_nofind .ignore (by decide) ⟨c, false⟩
      rw [hresL] at this; exact this
    subst hfL
    simp only [show (Pol.warn == Pol.ignore) = false from rfl, show (Pol.ignore == Pol.ignore) = true from rfl, Bool.and_false, Bool.and_true,
      Bool.false_eq_true, ↓reduceIte]
    cases hfix : fixWf with
    | false => simp [wfBlockOf]
    | true =>
      simp only [↓reduceIte, wfDetectFix, hres, hresL, wfBlockOf, Bool.true_and, List.isEmpty_nil, Bool.not_true, Bool.false_eq_true]
      cases fS <;> simp
  · -- ignore / fail
    have hfS : fS = [] := by
      have := parseFields_nofind .fail (by decide) ⟨c, false⟩
      rw [hres] at this; exact this
    have hfL := hn hfS
    subst hfS hfL
    obtain ⟨fW, hresW, hnW⟩ := parseFields_le .warn .fail rfl _ fs [] st hres
    have hfW := hnW rfl
    subst hfW
    simp only [show (Pol.fail == Pol.ignore) = false from rfl, show (Pol.ignore == Pol.ignore) = true from rfl, Bool.and_false, Bool.and_true,
      Bool.false_eq_true, ↓reduceIte]
    cases hfix : fixWf with
    | false => simp
    | true => simp [wfDetectFix, hresW, hresL]
  · -- warn / warn
    rw [hres] at hresL
    simp only [ParseRes.ok.injEq, true_and] at hresL
    rw [hresL.1]
  · -- warn / fail
    have hfS : fS = [] := by
      have := parseFields_nofind .fail (by decide) ⟨c, false⟩
      rw [hres] at this; exact this
    have hfL := hn hfS
    subst hfS hfL
    simp [show (Pol.fail == Pol.ignore) = false from rfl, show (Pol.warn == Pol.ignore) = false from rfl]
  · -- fail / fail
    rw [hres] at hresL
    simp only [ParseRes.ok.injEq, true_and] at hresL
    rw [hresL.1]


def seg : Bytes := bs "WARC-Segment-Number"
/-- the only thing ValidateDigest reads from the header once Content-Length has been checked -/
def SegR (hL hS : Fields) : Prop := hL.has seg = hS.has seg

theorem Rel.setHdr' {P Q : Fields → Fields → Prop} (x y : Fields) (h : Q x y) : Rel P Q (M.setHdr x) (M.setHdr y) := by
  constructor
  intro sL sS _ b sS' hS
  simp only [M.setHdr_def, Prod.mk.injEq, Except.ok.injEq] at hS
  obtain ⟨_, rfl⟩ := hS
  exact ⟨_, rfl, h⟩

theorem Rel.addFindings {P} (fL fS : List Tag) : Rel P P (M.addFindings fL) (M.addFindings fS) := by
  constructor
  intro sL sS hP b sS' hS
  simp only [M.addFindings_def, Prod.mk.injEq, Except.ok.injEq] at hS
  obtain ⟨_, rfl⟩ := hS
  exact ⟨_, rfl, hP⟩

theorem segR_set (c : Bool) (hL hS : Fields) (f v : Bytes) (hf : canon seg ≠ canon f) (h : SegR hL hS) :
    SegR (if c then hL.set f v else hL) hS := by
  unfold SegR at *
  split
  · rw [Props.C20.has_set_other _ _ _ _ hf]; exact h
  · exact h

theorem segR_set_right (c : Bool) (hL hS : Fields) (f v : Bytes) (hf : canon seg ≠ canon f) (h : SegR hL hS) :
    SegR hL (if c then hS.set f v else hS) := by
  unfold SegR at *
  split
  · rw [Props.C20.has_set_other _ _ _ _ hf]; exact h
  · exact h

section
variable (o : Opts) (Ω : Oracles) (L S : Pols) (hle : Pols.le L S)
include hle

theorem resolveRecordType_mono : Mono (resolveRecordType (o.withPol L)) (resolveRecordType (o.withPol S)) := by
  have h1 := hle.spec; have h2 := hle.unk
  unfold resolveRecordType
  mono

theorem validateFieldsLoop_mono (v rt : Nat) (l : Fields) :
    Mono (validateFieldsLoop (o.withPol L) Ω v rt l) (validateFieldsLoop (o.withPol S) Ω v rt l) := by
  have h1 := hle.spec
  induction l with
  | nil => unfold validateFieldsLoop; mono
  | cons nv rest ih => obtain ⟨n, w⟩ := nv; unfold validateFieldsLoop; mono

theorem requiredLoop_mono (l : List String) : Mono (requiredLoop (o.withPol L) l) (requiredLoop (o.withPol S) l) := by
  have h1 := hle.spec
  induction l with
  | nil => unfold requiredLoop; mono
  | cons x rest ih => unfold requiredLoop; mono

theorem validateSpec_mono (v rt : Nat) : Mono (validateSpec (o.withPol L) Ω v rt) (validateSpec (o.withPol S) Ω v rt) := by
  have h1 := hle.spec
  unfold validateSpec
  mono
  · exact validateFieldsLoop_mono o Ω L S hle v rt _
  · exact requiredLoop_mono o L S hle _

theorem validateHeader_mono (v : Nat) : Mono (validateHeader (o.withPol L) Ω v) (validateHeader (o.withPol S) Ω v) := by
  unfold validateHeader
  apply Rel.bind (resolveRecordType_mono o L S hle)
  intro rt
  by_cases hL : L.spec = .ignore
  · have e1 : ((o.withPol L).spec != Pol.ignore) = false := by simp [hL]
    rw [e1]
    simp only [Bool.false_eq_true, ↓reduceIte]
    by_cases hS : S.spec = .ignore
    · have e2 : ((o.withPol S).spec != Pol.ignore) = false := by simp [hS]
      rw [e2]
      simp only [Bool.false_eq_true, ↓reduceIte]
      exact Rel.pure _
    · have e2 : ((o.withPol S).spec != Pol.ignore) = true := by simp [hS]
      rw [e2]
      simp only [↓reduceIte]
      have : (Pure.pure rt : M Nat) = (Pure.pure () >>= fun _ => Pure.pure rt) := rfl
      rw [this]
      exact Rel.bind (Rel.pure_left (validateSpec_keep _ Ω v rt)) (fun _ => Rel.pure _)
  · have hS := Pol.le_ne_ignore hle.spec hL
    have e1 : ((o.withPol L).spec != Pol.ignore) = true := by simp [hL]
    have e2 : ((o.withPol S).spec != Pol.ignore) = true := by simp [hS]
    rw [e1, e2]
    simp only [↓reduceIte]
    exact Rel.bind (validateSpec_mono o Ω L S hle v rt) (fun _ => Rel.pure _)

theorem digestFromField_mono (f : Bytes) : Mono (digestFromField (o.withPol L) f) (digestFromField (o.withPol S) f) := by
  have e : digestFromField (o.withPol L) f = digestFromField (o.withPol S) f := rfl
  rw [e]
  exact Rel.of_frame (digestFromField_frame _ _)

theorem newHttpBlock_mono (c : Bytes) (bd pd : Digest) :
    Mono (newHttpBlock (o.withPol L) Ω c bd pd) (newHttpBlock (o.withPol S) Ω c bd pd) := by
  have h1 := hle.syn; have h2 := hle.blk
  unfold newHttpBlock
  mono

theorem newWarcFieldsBlock_mono (c : Bytes) (fault : Bool) (bd : Digest) :
    Mono (newWarcFieldsBlock (o.withPol L) c fault bd) (newWarcFieldsBlock (o.withPol S) c fault bd) := by
  unfold newWarcFieldsBlock
  simp only [Opts.withPol]
  apply Rel.bind (Rel.condSite _ _ _ _ hle.syn)
  intro _
  constructor
  intro sL sS hP b sS' hS
  obtain ⟨bS, t2, hw, hS⟩ := bind_ok _ _ _ _ _ hS
  simp only [M.pure_def, Prod.mk.injEq, Except.ok.injEq] at hS
  obtain ⟨hb, rfl⟩ := hS
  obtain ⟨fs, fS, st, hres, hbS, hblk, hh⟩ := wfFinish_ok _ _ _ _ _ _ _ _ hw
  obtain ⟨fL, hresL, hn⟩ := parseFields_le L.syn S.syn hle.syn _ fs fS st hres
  have hblkL : L.blk = .fail → fL = [] := by
    intro hLb
    have : S.blk = .fail := by have := hle.blk; rw [hLb] at this; cases hSb : S.blk <;> simp_all [Pol.le]
    exact hn (hblk this)
  obtain ⟨sL', hrun, hhL⟩ := wfFinish_run L.blk o.fixWarcFieldsBlockErrors c bd fs fL st sL hblkL
  simp only [M.bind_def]
  rw [hresL, hrun]
  simp only [M.pure_def]
  refine ⟨sL', ?_, by rw [hhL, hh, hP]⟩
  congr 2
  rw [← hb, hbS]
  exact wfDetect_agree _ c bd fs fL fS st L.syn S.syn hle.syn hresL hres hn

theorem parseBlock_mono (rt : Nat) (c : Bytes) (fault : Bool) :
    Mono (parseBlock (o.withPol L) Ω rt c fault) (parseBlock (o.withPol S) Ω rt c fault) := by
  unfold parseBlock
  have d1 := digestFromField_mono o L S hle
  have hh := newHttpBlock_mono o Ω L S hle
  have hw := newWarcFieldsBlock_mono o L S hle
  mono
  all_goals first
    | exact d1 _
    | exact hh _ _ _
    | exact hw _ _ _


/-! ### length, digests, trailer: from here on the lenient and the strict header may differ (a repair under warn is no
    repair under ignore), so the relation on headers weakens to what the remaining steps read -/

section
variable (H : Alg → Bytes → Bytes)

theorem checkDigest_rel (f : Bytes) (t : Tag) (d : Digest) (data : Bytes) (hf : canon seg ≠ canon f) :
    Rel SegR SegR (checkDigest H (o.withPol L) f t d data) (checkDigest H (o.withPol S) f t d data) := by
  unfold checkDigest
  apply Rel.hdrDep
  intro hL hS hP
  apply Rel.ite
  · intro _
    exact Rel.setHdr' _ _ (segR_set _ _ _ _ _ hf (segR_set_right _ _ _ _ _ hf hP))
  · intro _
    refine Rel.bind (Q := SegR) (Rel.condSite' _ _ _ _ _ ?_) (fun _ => Rel.modify ?_)
    · intro hLf hc
      have hSf : S.spec = .fail := by
        have := hle.spec
        have e : (o.withPol L).spec = L.spec := rfl
        rw [e] at hLf
        rw [hLf] at this
        cases hSs : S.spec <;> simp_all [Pol.le]
      have e1 : (o.withPol L).spec = .fail := hLf
      have e2 : (o.withPol S).spec = .fail := hSf
      rw [e1] at hc
      rw [e2]
      exact ⟨rfl, hc⟩
    · intro hL' hS' hP'
      exact segR_set _ _ _ _ _ hf (segR_set_right _ _ _ _ _ hf hP')

theorem validateDigest_rel (rt : Nat) (b : Block) (fault : Bool) :
    Rel Eq SegR (validateDigest H (o.withPol L) rt b fault) (validateDigest H (o.withPol S) rt b fault) := by
  unfold validateDigest
  refine Rel.bind (Rel.condFail _ _) (fun _ => Rel.bind Rel.hdr (fun h => ?_))
  refine Rel.bind (Q := Eq) (Rel.condSite' _ _ _ _ _ ?_) (fun _ => Rel.bind Rel.hdr (fun h' => ?_))
  · intro hLf hc
    have e : (o.withPol L).spec = L.spec := rfl
    have hSf : S.spec = .fail := by
      have := hle.spec
      rw [e] at hLf
      rw [hLf] at this
      cases hSs : S.spec <;> simp_all [Pol.le]
    have e2 : (o.withPol S).spec = .fail := hSf
    refine ⟨e2, ?_⟩
    unfold lengthBad at hc ⊢
    rw [hLf] at hc
    rw [e2]
    exact hc
  refine Rel.bind (Q := SegR) (Rel.setHdr' _ _ ?_) (fun _ => ?_)
  · exact segR_set _ _ _ _ _ (by decide) (segR_set_right _ _ _ _ _ (by decide) rfl)
  refine Rel.bind (checkDigest_rel o L S hle H _ _ _ _ (by decide)) (fun _ => ?_)
  apply Rel.hdrDep
  intro hL hS hP
  have : (rt == RT_Revisit || hL.has (bs "WARC-Segment-Number")) = (rt == RT_Revisit || hS.has (bs "WARC-Segment-Number")) := by
    have : hL.has seg = hS.has seg := hP
    unfold seg at this
    rw [this]
  rw [this]
  apply Rel.ite
  · intro _; exact Rel.pure ()
  · intro _
    cases b.payloadDigest with
    | none => exact Rel.pure ()
    | some pd => exact checkDigest_rel o L S hle H _ _ _ _ (by decide)

theorem versionOf_rel {P : Fields → Fields → Prop} (txt : Bytes) : Rel P P (versionOf (o.withPol L) txt) (versionOf (o.withPol S) txt) := by
  unfold versionOf
  split
  · exact Rel.pure _
  · exact Rel.bind (Rel.site _ _ _ hle.spec) (fun _ => Rel.pure _)

theorem unmarshalTail_acc (vt : Bytes) (vi : Nat) (fs : Fields) (s' : Stream) :
    Acc (fun _ _ => True) (unmarshalTail H (o.withPol L) Ω vt vi fs s') (unmarshalTail H (o.withPol S) Ω vt vi fs s') := by
  unfold unmarshalTail
  refine Acc.bind (Q := Eq) (Rel.setHdr fs) (fun _ => ?_)
  refine Acc.bind (validateHeader_mono o Ω L S hle vi) (fun rt => ?_)
  refine Acc.bind Rel.hdr (fun h => ?_)
  refine Acc.bind (parseBlock_mono o Ω L S hle rt _ _) (fun b => ?_)
  refine Acc.bind (validateDigest_rel o L S hle H rt b _) (fun _ => ?_)
  refine Acc.bind (Q := SegR) (Rel.condFail _ _) (fun _ => ?_)
  refine Acc.bind (Q := SegR) (Rel.condSite _ _ _ _ hle.spec) (fun _ => ?_)
  exact Acc.total _ (fun s => ⟨_, _, rfl⟩)

theorem unmarshalRest_acc (vt : Bytes) (vi : Nat) (resL resS : ParseRes)
    (hres : ∀ fs fS s', resS = .ok fs fS s' → ∃ fL, resL = .ok fs fL s') :
    Acc (fun _ _ => True) (unmarshalRest H (o.withPol L) Ω vt vi resL) (unmarshalRest H (o.withPol S) Ω vt vi resS) := by
  cases resS with
  | err t f =>
    constructor
    intro sL sS _ a sS' hS
    simp [unmarshalRest] at hS
  | ok fs fS s' =>
    obtain ⟨fL, hL⟩ := hres fs fS s' rfl
    subst hL
    unfold unmarshalRest
    exact Acc.bind (Q := fun _ _ => True) (Rel.addFindings _ _) (fun _ => unmarshalTail_acc o Ω L S hle H vt vi fs s')

theorem unmarshalBody_acc (s : Stream) (vl : Bytes) :
    Acc (fun _ _ => True) (unmarshalBody H (o.withPol L) Ω s vl) (unmarshalBody H (o.withPol S) Ω s vl) := by
  unfold unmarshalBody
  refine Acc.bind (Q := fun _ _ => True) (Rel.condSite _ _ _ _ hle.syn) (fun _ => ?_)
  refine Acc.bind (Q := fun _ _ => True) (versionOf_rel o L S hle _) (fun v => ?_)
  apply unmarshalRest_acc o Ω L S hle H
  intro fs fS s' hS
  obtain ⟨fL, hL, _⟩ := parseFields_le L.syn S.syn hle.syn s fs fS s' hS
  exact ⟨fL, hL⟩


theorem afterMagic_mono (off : Nat) (fL fS : List Tag) (after : Stream)
    (h : (unmarshalAfterMagic H (o.withPol S) Ω off fS after).err = none) :
    (unmarshalAfterMagic H (o.withPol L) Ω off fL after).err = none := by
  unfold unmarshalAfterMagic at h ⊢
  split
  · rename_i hc; simp [hc] at h
  · rename_i hc
    simp only [hc, Bool.false_eq_true, ↓reduceIte] at h
    have hacc := unmarshalBody_acc o Ω L S hle H ⟨(readBytesNL after.rest).2.1, after.fault⟩ (readBytesNL after.rest).1
    cases hS : unmarshalBody H (o.withPol S) Ω ⟨(readBytesNL after.rest).2.1, after.fault⟩ (readBytesNL after.rest).1 ⟨[], fS⟩ with
    | mk r st =>
      rw [hS] at h
      cases r with
      | error e => simp at h
      | ok v =>
        obtain ⟨b, sL', hL⟩ := hacc.h ⟨[], fL⟩ ⟨[], fS⟩ trivial v st hS
        rw [hL]

theorem gzFinish_mono (rL rS : URes) (bad : Bool) (rest : Bytes) (hr : rS.err = none → rL.err = none)
    (h : (gzFinish rS bad rest).err = none) : (gzFinish rL bad rest).err = none := by
  unfold gzFinish at h ⊢
  cases hS : rS.err with
  | some e => rw [hS] at h; simp only at h; rw [hS] at h; cases h
  | none =>
    rw [hS] at h
    simp only at h
    rw [hr hS]
    simp only
    cases bad with
    | true => simp at h
    | false => simp only [Bool.false_eq_true, ↓reduceIte] <;> exact hr hS

/-- **Unmarshal**: whatever a setting accepts, every pointwise more lenient setting accepts -/
theorem unmarshal_mono (s : Stream) (h : (unmarshal H (o.withPol S) Ω s).err = none) :
    (unmarshal H (o.withPol L) Ω s).err = none := by
  unfold unmarshal at h ⊢
  cases hj : skipJunk (s.rest.length + 1) s.rest 0 with
  | inl off =>
    rw [hj] at h
    simp only at h
    split at h <;> cases h
  | inr v =>
    obtain ⟨off, atMagic⟩ := v
    rw [hj] at h
    simp only at h ⊢
    by_cases hc : (S.syn == .fail && decide (off > 0)) = true
    · simp [hc] at h
    · simp only [hc, Bool.false_eq_true, ↓reduceIte] at h
      have hcL : ¬ (L.syn == .fail && decide (off > 0)) = true := by
        intro hL
        apply hc
        simp only [Bool.and_eq_true, beq_iff_eq, decide_eq_true_eq] at hL ⊢
        refine ⟨?_, hL.2⟩
        have := hle.syn
        rw [hL.1] at this
        cases hSs : S.syn <;> simp_all [Pol.le]
      simp only [hcL, Bool.false_eq_true, ↓reduceIte]
      split
      · rename_i hgz
        simp only [hgz, ↓reduceIte] at h
        cases hΩ : Ω.gz atMagic with
        | none => rw [hΩ] at h; cases h
        | some r =>
          rw [hΩ] at h
          cases r with
          | inl t => cases h
          | inr v =>
            obtain ⟨content, bad, consumed⟩ := v
            simp only at h ⊢
            split
            · rename_i h5; simp [h5] at h
            · rename_i h5
              simp only [h5, ↓reduceIte] at h
              split
              · rename_i hw; simp [hw] at h
              · rename_i hw
                simp only [hw, ↓reduceIte] at h
                exact gzFinish_mono L S hle _ _ _ _ (afterMagic_mono o Ω L S hle H off _ _ _) h
      · rename_i hgz
        simp only [hgz, ↓reduceIte] at h
        exact afterMagic_mono o Ω L S hle H off _ _ _ h

/-- **Build**: whatever a setting accepts, every pointwise more lenient setting accepts -/
theorem build_mono (vt : Bytes) (vi rt0 : Nat) (hdr : Fields) (c id : Bytes)
    (h : (build H (o.withPol S) Ω vt vi rt0 hdr c id).err = none) : (build H (o.withPol L) Ω vt vi rt0 hdr c id).err = none := by
  unfold build at h ⊢
  simp only at h ⊢
  generalize (o.addMissingContentLength && !Fields.has (if (o.addMissingRecordId && !Fields.has hdr (bs "WARC-Record-ID")) = true then
      Fields.setId hdr (bs "WARC-Record-ID") id else hdr) (bs "Content-Length")) = cla at h ⊢
  have hacc : Acc Eq (buildBody H (o.withPol L) Ω vt vi rt0 cla c) (buildBody H (o.withPol S) Ω vt vi rt0 cla c) := by
    unfold buildBody
    refine Acc.bind (validateHeader_mono o Ω L S hle vi) (fun rtv => ?_)
    refine Acc.bind (parseBlock_mono o Ω L S hle _ c false) (fun b => ?_)
    refine Acc.bind Rel.hdr (fun h0 => ?_)
    refine Acc.bind (Rel.setHdr _) (fun _ => ?_)
    refine Acc.bind (validateDigest_rel o L S hle H _ b false) (fun _ => ?_)
    exact Acc.total _ (fun s => ⟨_, _, rfl⟩)
  generalize (⟨_, []⟩ : St) = st0 at h ⊢
  cases hS' : buildBody H (o.withPol S) Ω vt vi rt0 cla c st0 with
  | mk r st =>
    rw [hS'] at h
    cases r with
    | error e => cases h
    | ok v =>
      obtain ⟨b, sL', hL'⟩ := hacc.h st0 st0 rfl v st hS'
      rw [hL']

end
end
end Gowarc
