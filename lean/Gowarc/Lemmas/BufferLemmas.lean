import Gowarc.Model.Buffer
import Gowarc.Spec.ByteBuffer
namespace Gowarc
open Spec

/-- abstraction: the buffer's contents -/
def Buf.data (b : Buf) : Bytes := b.mem ++ b.file.getD []

/-- memory never exceeds the threshold; the temp file exists exactly when memory is full -/
structure Buf.Inv (b : Buf) : Prop where
  pos : 0 < b.max
  le : b.mem.length ≤ b.max
  file_iff : b.file.isSome ↔ b.mem.length = b.max

theorem Buf.inv_new (max : Nat) (h : 0 < max) : (Buf.new max).Inv :=
  ⟨h, by simp [Buf.new], by simp [Buf.new]; omega⟩

theorem Buf.size_eq (b : Buf) : b.size = b.data.length := by
  unfold Buf.size Buf.data Buf.memLen Buf.fileLen
  cases b.file <;> simp

theorem Buf.write_data (b : Buf) (p : Bytes) (h : b.Inv) : (b.write p).data = b.data ++ p := by
  unfold Buf.write Buf.data Buf.memHasSpace Buf.memLen
  by_cases hs : b.mem.length < b.max
  · have hnone : b.file = none := by
      cases hf : b.file with
      | none => rfl
      | some f => have := h.file_iff.mp (by simp [hf]); omega
    simp only [hs, decide_true, ↓reduceIte]
    split
    · rename_i hlt
      simp only [hnone, Option.getD_none, List.append_nil]
      have : p.length ≤ b.max - b.mem.length := by
        simp only [List.length_append, List.length_take] at hlt; omega
      rw [List.take_of_length_le this]
    · simp [hnone, List.append_assoc]
  · simp only [hs, decide_false, Bool.false_eq_true, ↓reduceIte]
    cases hf : b.file with
    | none => have := h.file_iff.mpr (by have := h.le; omega); simp [hf] at this
    | some f => simp [List.append_assoc]

theorem Buf.write_inv (b : Buf) (p : Bytes) (h : b.Inv) : (b.write p).Inv := by
  unfold Buf.write Buf.memHasSpace Buf.memLen
  by_cases hs : b.mem.length < b.max
  · have hnone : b.file = none := by
      cases hf : b.file with
      | none => rfl
      | some f => have := h.file_iff.mp (by simp [hf]); omega
    simp only [hs, decide_true, ↓reduceIte]
    split
    · rename_i hlt
      refine ⟨h.pos, by simp at hlt ⊢; omega, ?_⟩
      simp only [hnone]; simp at hlt ⊢; omega
    · rename_i hge
      refine ⟨h.pos, by simp; omega, ?_⟩
      simp at hge ⊢; omega
  · simp only [hs, decide_false, Bool.false_eq_true, ↓reduceIte]
    cases hf : b.file with
    | none => have := h.file_iff.mpr (by have := h.le; omega); simp [hf] at this
    | some f =>
      refine ⟨h.pos, h.le, ?_⟩
      have := h.file_iff; simp [hf] at this ⊢; exact this

theorem Buf.write_no_fault (b : Buf) (h : b.Inv) : b.writeFaults = false := by
  unfold Buf.writeFaults Buf.memHasSpace Buf.memLen
  by_cases hs : b.mem.length < b.max
  · simp [hs]
  · have := h.file_iff.mpr (by have := h.le; omega)
    simp [this]

theorem partRead_spec (data : Bytes) (off n : Nat) : Buf.partRead data off n = SBuf.readAt data off n := by
  unfold Buf.partRead SBuf.readAt
  by_cases h : data.length = 0 ∨ off ≥ data.length
  · have hc : (data.length == 0 || decide (off ≥ data.length)) = true := by rcases h with h | h <;> simp [h]
    have hd : data.drop off = [] := List.drop_of_length_le (by rcases h with h | h <;> omega)
    simp only [hc, ↓reduceIte, hd, List.take_nil, List.length_nil]
    cases n <;> simp
  · have hc : (data.length == 0 || decide (off ≥ data.length)) = false := by
      simp only [Bool.or_eq_false_iff, beq_eq_false_iff_ne, ne_eq, decide_eq_false_iff_not]; omega
    simp [hc]

/-- the pure stitching law: reading from `a ++ c` is reading from `a` and, if that came back short, continuing in `c` -/
theorem readAt_append (a c : Bytes) (off n : Nat) :
    SBuf.readAt (a ++ c) off n =
      if (SBuf.readAt a off n).2 then
        ((SBuf.readAt a off n).1 ++ (SBuf.readAt c (off + (SBuf.readAt a off n).1.length - a.length) (n - (SBuf.readAt a off n).1.length)).1,
         (SBuf.readAt c (off + (SBuf.readAt a off n).1.length - a.length) (n - (SBuf.readAt a off n).1.length)).2)
      else SBuf.readAt a off n := by
  unfold SBuf.readAt
  simp only [decide_eq_true_eq]
  have hlen : ((a.drop off).take n).length = min n (a.length - off) := by simp
  by_cases hshort : ((a.drop off).take n).length < n
  · simp only [hshort, ↓reduceIte]
    have hk : a.length - off < n := by rw [hlen] at hshort; omega
    have htake : (a.drop off).take n = a.drop off := List.take_of_length_le (by simp; omega)
    rw [htake]
    have hoffs : off + (a.drop off).length - a.length = off - a.length := by simp; omega
    rw [hoffs, List.drop_append, List.take_append]
    have h1 : (a.drop off).take n = a.drop off := htake
    rw [h1]
    refine Prod.ext rfl ?_
    simp only [List.length_append, List.length_drop, List.length_take, decide_eq_decide]
    omega
  · simp only [hshort, ↓reduceIte]
    have hn : n ≤ a.length - off := by rw [hlen] at hshort; omega
    rw [List.drop_append, List.take_append]
    have : n - (a.drop off).length = 0 := by simp; omega
    rw [this]; simp; omega

/-- **reads stitch memory and file correctly**: reading `n` bytes at any offset gives exactly what the plain
    buffer gives, including the end-of-data signal. -/
theorem Buf.readAt_spec (b : Buf) (off n : Nat) (_h : b.Inv) : b.readAt off n = SBuf.readAt b.data off n := by
  unfold Buf.readAt
  rw [Buf.size_eq]
  by_cases hsz : b.data.length ≤ off
  · simp only [hsz, ↓reduceIte]
    unfold SBuf.readAt
    rw [List.drop_of_length_le hsz]
    cases n <;> simp
  · simp only [hsz, ↓reduceIte]
    unfold Buf.memRead Buf.fileRead Buf.memLen
    simp only [partRead_spec]
    unfold Buf.data
    cases hf : b.file with
    | none => simp
    | some f =>
      rw [readAt_append]
      simp only [Option.isSome_some, Bool.and_true, Option.getD_some]
      by_cases hs : (SBuf.readAt b.mem off n).2 = true
      · have hgt : decide (n > (SBuf.readAt b.mem off n).1.length) = true := by
          unfold SBuf.readAt at hs ⊢; simpa using hs
        simp [hs, hgt]
      · simp [hs]

theorem Buf.read_spec (b : Buf) (n : Nat) (h : b.Inv) :
    (b.read n).1 = SBuf.readAt b.data b.off n ∧
    (b.read n).2 = { b with off := b.off + (SBuf.readAt b.data b.off n).1.length } := by
  unfold Buf.read; rw [Buf.readAt_spec b b.off n h]; exact ⟨rfl, rfl⟩

theorem Buf.peek_spec (b : Buf) (n : Nat) (h : b.Inv) : b.peek n = SBuf.readAt b.data b.off n :=
  Buf.readAt_spec b b.off n h

/-- slice reads are reads of the view: identical bytes; end-of-data is signalled only when no data of the view remains
    after the returned bytes, and always when a non-empty request returns nothing. -/
theorem Slice.readAt_spec (s : Slice) (b : Buf) (off n : Nat) (h : b.Inv) :
    (s.readAt b off n).1 = (SBuf.readAt (SBuf.view b.data s.soff s.len) off n).1 ∧
    ((s.readAt b off n).2 = true → (SBuf.view b.data s.soff s.len).length ≤ off + (s.readAt b off n).1.length) ∧
    ((s.readAt b off n).1 = [] → 0 < n → (s.readAt b off n).2 = true) := by
  unfold Slice.readAt SBuf.view
  cases hl : s.len with
  | none =>
    simp only [Buf.readAt_spec _ _ _ h, SBuf.readAt, List.drop_drop, decide_eq_true_eq]
    have hc : s.soff + off = off + s.soff := Nat.add_comm _ _
    rw [hc]
    refine ⟨trivial, ?_, ?_⟩
    · simp only [List.length_take, List.length_drop]; omega
    · intro he hn; rw [he]; simpa using hn
  | some l =>
    by_cases hle : l ≤ off
    · simp only [hle, ↓reduceIte, SBuf.readAt, List.drop_take]
      have : l - off = 0 := by omega
      simp only [this, List.take_zero, List.take_nil, List.length_nil, true_and, List.length_take, List.length_drop]
      exact ⟨fun _ => by omega, fun _ _ => trivial⟩
    · simp only [hle, ↓reduceIte, Buf.readAt_spec _ _ _ h, SBuf.readAt, List.drop_take, List.drop_drop, List.take_take,
        decide_eq_true_eq]
      have hc : s.soff + off = off + s.soff := Nat.add_comm _ _
      rw [hc]
      refine ⟨trivial, ?_, ?_⟩
      · simp only [List.length_take, List.length_drop]; omega
      · intro he hn; rw [he]; simp; omega

end Gowarc

namespace Gowarc
open Spec

/-- what a line read must return on plain data: up to and including the first delimiter, or the rest and end-of-data -/
def specLine (data : Bytes) (off : Nat) (d : UInt8) : Bytes × Bool × Nat :=
  match Buf.indexOf d (data.drop off) with
  | some i => ((data.drop off).take (i + 1), false, off + i + 1)
  | none => (data.drop off, true, max off data.length)

theorem indexOf_lt (d : UInt8) (l : Bytes) (i : Nat) (h : Buf.indexOf d l = some i) : i < l.length := by
  induction l generalizing i with
  | nil => simp [Buf.indexOf] at h
  | cons x xs ih =>
    unfold Buf.indexOf at h
    split at h
    · simp at h; subst h; simp
    · cases hx : Buf.indexOf d xs with
      | none => simp [hx] at h
      | some j => simp [hx] at h; subst h; have := ih j hx; simp; omega

theorem indexOf_append (d : UInt8) (a c : Bytes) :
    Buf.indexOf d (a ++ c) = match Buf.indexOf d a with
      | some i => some i
      | none => (Buf.indexOf d c).map (· + a.length) := by
  induction a with
  | nil => cases h : Buf.indexOf d c <;> simp [Buf.indexOf, h]
  | cons x xs ih =>
    simp only [List.cons_append, Buf.indexOf]
    split
    · rfl
    · rw [ih]
      cases Buf.indexOf d xs with
      | some i => simp
      | none => cases Buf.indexOf d c <;> simp <;> omega

theorem diskLoop_spec (f : Bytes) (d : UInt8) (fuel foff : Nat) (acc : Bytes) (hfuel : f.length < foff + fuel * 100) :
    Buf.diskLoop f d fuel foff acc =
      (acc ++ (specLine f foff d).1, (specLine f foff d).2.1, (specLine f foff d).2.2) := by
  induction fuel generalizing foff acc with
  | zero =>
    have hd : f.drop foff = [] := List.drop_of_length_le (by omega)
    simp [Buf.diskLoop, specLine, hd, Buf.indexOf]; omega
  | succ k ih =>
    unfold Buf.diskLoop
    by_cases hend : f.length = 0 ∨ foff ≥ f.length
    · have hc : (f.length == 0 || decide (foff ≥ f.length)) = true := by rcases hend with h | h <;> simp [h]
      have hd : f.drop foff = [] := List.drop_of_length_le (by rcases hend with h | h <;> omega)
      simp only [hc, ↓reduceIte, specLine, hd, Buf.indexOf, List.append_nil]
      refine Prod.ext rfl (Prod.ext rfl ?_); simp; rcases hend with h | h <;> omega
    · have hc : (f.length == 0 || decide (foff ≥ f.length)) = false := by
        simp only [Bool.or_eq_false_iff, beq_eq_false_iff_ne, ne_eq, decide_eq_false_iff_not]; omega
      simp only [hc, Bool.false_eq_true, ↓reduceIte]
      have hsplit : f.drop foff = (f.drop foff).take 100 ++ f.drop (foff + 100) := by
        rw [← List.drop_drop, List.take_append_drop]
      cases hi : Buf.indexOf d ((f.drop foff).take 100) with
      | some i =>
        have hlt := indexOf_lt _ _ _ hi
        have hfull : Buf.indexOf d (f.drop foff) = some i := by rw [hsplit, indexOf_append, hi]
        simp only [specLine, hfull]
        refine Prod.ext ?_ rfl
        simp only [List.take_take]
        congr 2
        simp at hlt; omega
      | none =>
        simp only
        by_cases hshort : ((f.drop foff).take 100).length < 100
        · simp only [hshort, ↓reduceIte]
          have hrest : f.drop (foff + 100) = [] := List.drop_of_length_le (by simp at hshort; omega)
          have hall : (f.drop foff).take 100 = f.drop foff :=
            List.take_of_length_le (by simp at hshort ⊢; omega)
          have hfull : Buf.indexOf d (f.drop foff) = none := by rw [← hall]; exact hi
          simp only [specLine, hfull, hall]
          refine Prod.ext rfl (Prod.ext rfl ?_); simp; omega
        · simp only [hshort, ↓reduceIte]
          have hlen : ((f.drop foff).take 100).length = 100 := by
            have : ((f.drop foff).take 100).length ≤ 100 := by simp; omega
            omega
          have h100 : foff + 100 ≤ f.length := by simp at hlen; omega
          rw [ih (foff + 100) _ (by omega)]
          have hfull : Buf.indexOf d (f.drop foff) = (Buf.indexOf d (f.drop (foff + 100))).map (· + 100) := by
            conv => lhs; rw [hsplit, indexOf_append, hi]
            simp [hlen]
          simp only [specLine, hfull]
          cases hj : Buf.indexOf d (f.drop (foff + 100)) with
          | none =>
            simp only [Option.map_none, List.append_assoc]
            refine Prod.ext ?_ (Prod.ext rfl ?_)
            · simp only; rw [← hsplit]
            · simp; omega
          | some j =>
            simp only [Option.map_some, List.append_assoc]
            refine Prod.ext ?_ (Prod.ext rfl ?_)
            · simp only
              have hj1 : j + 100 + 1 = 100 + (j + 1) := by omega
              have hdd : (f.drop foff).drop 100 = f.drop (foff + 100) := by rw [List.drop_drop]
              have hk : (f.drop foff).take (j + 100 + 1) = (f.drop foff).take 100 ++ (f.drop (foff + 100)).take (j + 1) := by
                rw [hj1, List.take_add, hdd]
              rw [hk]
            · simp only; omega

end Gowarc

namespace Gowarc
open Spec

theorem Buf.file_none_of_space (b : Buf) (h : b.Inv) (hs : b.mem.length < b.max) : b.file = none := by
  cases hf : b.file with
  | none => rfl
  | some f => have := h.file_iff.mp (by simp [hf]); omega

theorem Buf.file_some_of_full (b : Buf) (h : b.Inv) (hs : ¬ b.mem.length < b.max) : ∃ f, b.file = some f := by
  cases hf : b.file with
  | none => have := h.file_iff.mpr (by have := h.le; omega); simp [hf] at this
  | some f => exact ⟨f, rfl⟩

/-- **line reads across the spill boundary**: `ReadBytes` — memory search followed by the 100-byte disk loop —
    returns exactly the line a plain buffer returns, for every threshold, every line length and every position of the
    delimiter relative to the boundary and to the 100-byte chunks. -/
theorem Buf.readBytes_spec (b : Buf) (d : UInt8) (h : b.Inv) :
    b.readBytes d = (((specLine b.data b.off d).1, (specLine b.data b.off d).2.1),
                     { b with off := (specLine b.data b.off d).2.2 }) := by
  unfold Buf.readBytes
  rw [Buf.size_eq]
  by_cases hsz : b.data.length ≤ b.off
  · simp only [hsz, ↓reduceIte]
    have hd : b.data.drop b.off = [] := List.drop_of_length_le hsz
    have hmax : Nat.max b.off b.data.length = b.off := Nat.max_eq_left hsz
    simp [specLine, hd, Buf.indexOf, hmax]
  · simp only [hsz, ↓reduceIte]
    unfold Buf.memLen Buf.memHasSpace Buf.fileLen Buf.memLen
    by_cases hmem : b.off < b.mem.length
    · simp only [hmem, ↓reduceIte]
      have hdrop : b.data.drop b.off = b.mem.drop b.off ++ b.file.getD [] := by
        unfold Buf.data; rw [List.drop_append_of_le_length (by omega)]
      cases hi : Buf.indexOf d (b.mem.drop b.off) with
      | some i =>
        have hlt := indexOf_lt _ _ _ hi
        have hfull : Buf.indexOf d (b.data.drop b.off) = some i := by rw [hdrop, indexOf_append, hi]
        simp only [specLine, hfull]
        rw [hdrop, List.take_append_of_le_length (by omega)]
      | none =>
        simp only
        by_cases hsp : b.mem.length < b.max
        · have hnone := Buf.file_none_of_space b h hsp
          simp only [hsp, decide_true, ↓reduceIte]
          have hdata : b.data = b.mem := by simp [Buf.data, hnone]
          have hfull : Buf.indexOf d (b.data.drop b.off) = none := by rw [hdata]; exact hi
          have hmax : Nat.max b.off b.mem.length = b.mem.length := Nat.max_eq_right (by omega)
          simp [specLine, hdata, hi, hmax]
        · obtain ⟨f, hf⟩ := Buf.file_some_of_full b h hsp
          simp only [hsp, decide_false, Bool.false_eq_true, ↓reduceIte, hf, Option.getD_some]
          rw [diskLoop_spec f d _ 0 [] (by omega)]
          have hdrop' : b.data.drop b.off = b.mem.drop b.off ++ f := by rw [hdrop, hf]; rfl
          have hfull : Buf.indexOf d (b.data.drop b.off) = (Buf.indexOf d f).map (· + (b.mem.length - b.off)) := by
            rw [hdrop', indexOf_append, hi]; simp
          have hdl : b.data.length = b.mem.length + f.length := by simp [Buf.data, hf]
          simp only [specLine, hfull, List.drop_zero, List.nil_append, Nat.zero_add]
          cases hj : Buf.indexOf d f with
          | none =>
            simp only [Option.map_none]
            refine Prod.ext (Prod.ext ?_ rfl) ?_
            · simp only; rw [hdrop']
            · simp only [hdl]; congr 1; omega
          | some j =>
            simp only [Option.map_some]
            refine Prod.ext (Prod.ext ?_ rfl) ?_
            · simp only
              have hk : (b.mem.drop b.off ++ f).take (j + (b.mem.length - b.off) + 1) = b.mem.drop b.off ++ f.take (j + 1) := by
                rw [List.take_append, List.take_of_length_le (l := b.mem.drop b.off) (by simp; omega)]
                congr 2; simp; omega
              rw [hdrop', hk]
            · simp only; congr 1; omega
    · simp only [hmem, ↓reduceIte]
      have hsp : ¬ b.mem.length < b.max := by
        intro hsp
        have hnone := Buf.file_none_of_space b h hsp
        have : b.data = b.mem := by simp [Buf.data, hnone]
        rw [this] at hsz; omega
      obtain ⟨f, hf⟩ := Buf.file_some_of_full b h hsp
      simp only [hf, Option.getD_some]
      have hdl : b.data.length = b.mem.length + f.length := by simp [Buf.data, hf]
      rw [diskLoop_spec f d _ (b.off - b.mem.length) [] (by omega)]
      have hdrop : b.data.drop b.off = f.drop (b.off - b.mem.length) := by
        unfold Buf.data; rw [hf]; simp only [Option.getD_some]
        rw [List.drop_append]
        rw [List.drop_of_length_le (by omega)]; simp
      simp only [specLine, hdrop, List.nil_append]
      cases hj : Buf.indexOf d (f.drop (b.off - b.mem.length)) with
      | none =>
        simp only
        refine Prod.ext rfl ?_
        simp only [hdl]; congr 1; omega
      | some j =>
        simp only
        refine Prod.ext rfl ?_
        simp only; congr 1; omega

end Gowarc
