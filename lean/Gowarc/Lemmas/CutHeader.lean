/-
  The header parser on a header section that was cut: for every non-empty list of clean fields and every strict prefix of
  its serialisation (field lines followed by the blank line), the parser either returns an error or returns with the stream
  used up. (It never "finds" an end of the header section inside the prefix.)
-/
import Gowarc.Props.C19pos
import Gowarc.Props.C05total
namespace Gowarc
open Gowarc.Props.C19 Gowarc.Props.C05

/-- an error, or a result that has used up the stream -/
def ParseRes.endsEmpty : ParseRes → Prop
  | .err _ _ => True
  | .ok _ _ s' => s'.rest = []

theorem readBytesNL_nolf (l : Bytes) (h : LF ∉ l) : (readBytesNL l).2.2 = false := by
  induction l with
  | nil => rfl
  | cons b t ih =>
    have hb : (b == LF) = false := by
      simp only [List.mem_cons, not_or] at h
      simp [Ne.symm h.1]
    rw [readBytesNL]; simp only [hb, Bool.false_eq_true, ↓reduceIte]
    exact ih (by intro hm; exact h (List.mem_cons_of_mem _ hm))

theorem readLine_nolf (syn : Pol) (rest : Bytes) (h : (readBytesNL rest).2.2 = false) :
    (readLine syn ⟨rest, false⟩).err = some .eoh ∧ (readLine syn ⟨rest, false⟩).rest = [] ∧ (readLine syn ⟨rest, false⟩).nc = 0 := by
  unfold readLine
  simp [h]

theorem contLoop_nc0 (syn : Pol) (fuel : Nat) (line : Bytes) (eoh : Bool) (fnd : List Tag) (s : Stream) :
    contLoop syn fuel line 0 eoh fnd s = .inr (line, 0, eoh, fnd, s) := by
  cases fuel with
  | zero => rfl
  | succ n =>
    rw [contLoop]
    have : ((0 : UInt8) == SP || (0 : UInt8) == HT) = false := by decide
    simp [this]

theorem afterLine_eoh (k : Fields → List Tag → Stream → ParseRes) (wf : Fields) (fnd : List Tag) (nc : UInt8) (s : Stream) :
    afterLine k wf fnd nc true s = .ok wf fnd s := by
  unfold afterLine; simp

/-- the last, unterminated line of a stream: whatever the parser makes of it, nothing is left -/
theorem parseRest_eoh (syn : Pol) (k : Fields → List Tag → Stream → ParseRes) (wf : Fields) (fnd : List Tag) (lr : LineRes)
    (fault : Bool) (hnc : lr.nc = 0) (hrest : lr.rest = []) : (parseRest syn k wf fnd lr true fault).endsEmpty := by
  unfold parseRest
  rw [hnc, hrest, contLoop_nc0]
  simp only
  cases parseLine lr.line with
  | inl e =>
    cases syn with
    | fail => trivial
    | warn => simp only [afterLine_eoh]; rfl
    | ignore => simp only [afterLine_eoh]; rfl
  | inr nv => obtain ⟨n, v⟩ := nv; simp only [afterLine_eoh]; rfl

/-- a stream without a line feed: one iteration, then nothing is left -/
theorem parseLoop_nolf (syn : Pol) (fuel : Nat) (wf : Fields) (fnd : List Tag) (rest : Bytes) (h : (readBytesNL rest).2.2 = false) :
    (parseLoop syn (fuel + 1) wf fnd ⟨rest, false⟩).endsEmpty := by
  obtain ⟨h1, h2, h3⟩ := readLine_nolf syn rest h
  rw [parseLoop_succ]
  simp only [h1]
  have hne : (Tag.eoh == Tag.reader) = false := by decide
  simp only [hne, Bool.false_eq_true, ↓reduceIte, beq_self_eq_true]
  split
  · rfl
  · cases syn with
    | fail => trivial
    | warn => exact parseRest_eoh _ _ _ _ _ _ h3 h2
    | ignore => exact parseRest_eoh _ _ _ _ _ _ h3 h2

/-- a stream that is exactly one clean field line -/
theorem parseLoop_one_line (syn : Pol) (fuel : Nat) (wf : Fields) (nv : Bytes × Bytes) (h : CleanField nv) :
    (parseLoop syn (fuel + 2) wf [] ⟨lineOf nv ++ crlf, false⟩).endsEmpty := by
  have hrb : readBytesNL (lineOf nv ++ crlf) = (lineOf nv ++ crlf, [], true) := by
    have : lineOf nv ++ crlf = (lineOf nv ++ [CR]) ++ [LF] ++ [] := by simp [crlf, CR, LF]
    rw [this, readBytesNL_line _ _ (by
      simp only [List.mem_append, List.mem_singleton, not_or]; exact ⟨line_nolf nv h, by decide⟩)]
    simp [crlf, CR, LF]
  have hcr : missingCR (lineOf nv ++ crlf) = false := by
    unfold missingCR
    have hl : (lineOf nv ++ crlf).length = (lineOf nv).length + 2 := by simp [crlf]
    have hget : (lineOf nv ++ crlf).getD ((lineOf nv ++ crlf).length - 2) 0 = CR := by
      rw [hl]; simp [crlf, CR, List.getD_eq_getElem?_getD, List.getElem?_append_right]
    rw [hget, hl]; simp
  have hrl : readLine syn ⟨lineOf nv ++ crlf, false⟩ =
      ⟨trim isWs (lineOf nv ++ crlf), trimIsNil (lineOf nv ++ crlf), 0, none, []⟩ := by
    unfold readLine
    simp [hrb, hcr]
  rw [parseLoop_succ]
  simp only [hrl]
  unfold parseRest
  simp only [contLoop_nc0, trim_line nv h, parseLine_clean nv h]
  unfold afterLine endMarker
  have h1 : ((0 : UInt8) == CR) = false := by decide
  have h2 : ((0 : UInt8) == LF) = false := by decide
  simp only [Bool.false_eq_true, ↓reduceIte, h1, h2]
  exact parseLoop_nolf syn fuel _ _ [] rfl

/-- the serialised header section: field lines and the blank line -/
def headerText (fs : Fields) : Bytes := Fields.write fs ++ crlf

theorem headerText_cons (nv : Bytes × Bytes) (rest : Fields) : headerText (nv :: rest) = (lineOf nv ++ crlf) ++ headerText rest := by
  unfold headerText; rw [write_cons]; simp [List.append_assoc]

/-- **a cut header section is never taken for a complete one** -/
theorem cut_header_endsEmpty (syn : Pol) : ∀ (fs : Fields) (wf : Fields) (fuel k : Nat), fs ≠ [] → (∀ nv ∈ fs, CleanField nv) →
    fs.length + 1 ≤ fuel → k < (headerText fs).length →
    (parseLoop syn fuel wf [] ⟨(headerText fs).take k, false⟩).endsEmpty := by
  intro fs
  induction fs with
  | nil => intro _ _ _ h; exact absurd rfl h
  | cons nv rest ih =>
    intro wf fuel k _ hc hf hk
    have hnv := hc nv (by simp)
    obtain ⟨f, rfl⟩ : ∃ f, fuel = f + 2 := ⟨fuel - 2, by simp at hf; omega⟩
    rw [headerText_cons] at hk ⊢
    have hA : (lineOf nv ++ crlf).length = (lineOf nv).length + 2 := by simp [crlf]
    by_cases hlt : k < (lineOf nv ++ crlf).length
    · -- the cut is inside the first line: no line feed in what is left
      rw [List.take_append_of_le_length (Nat.le_of_lt hlt)]
      apply parseLoop_nolf syn (f + 1)
      apply readBytesNL_nolf
      intro hm
      have hsub : (lineOf nv ++ crlf).take k = (lineOf nv ++ [CR]).take k := by
        have : lineOf nv ++ crlf = (lineOf nv ++ [CR]) ++ [LF] := by simp [crlf, CR, LF]
        rw [this, List.take_append_of_le_length (by simp only [List.length_append, List.length_singleton]; omega)]
      rw [hsub] at hm
      have := List.mem_of_mem_take hm
      simp only [List.mem_append, List.mem_singleton] at this
      rcases this with h1 | h1
      · exact line_nolf nv hnv h1
      · exact absurd h1 (by decide)
    · by_cases heq : k = (lineOf nv ++ crlf).length
      · -- exactly the first line
        rw [heq, List.take_left']
        · exact parseLoop_one_line syn f wf nv hnv
        · rfl
      · -- at least one byte of what follows the first line
        have hgt : (lineOf nv ++ crlf).length < k := by omega
        rw [List.take_append]
        have htk : (lineOf nv ++ crlf).take k = lineOf nv ++ crlf := List.take_of_length_le (Nat.le_of_lt hgt)
        rw [htk]
        generalize hj : k - (lineOf nv ++ crlf).length = j
        have hj1 : 1 ≤ j := by omega
        have hcl : crlf.length = 2 := rfl
        have hj2 : j < (headerText rest).length := by simp only [List.length_append] at hk hj; omega
        cases rest with
        | nil =>
          -- only the blank line follows: the cut falls between its CR and its LF
          have hj' : j = 1 := by simp [headerText, Fields.write, crlf] at hj2; omega
          subst hj'
          have hp : (headerText ([] : Fields)).take 1 = [CR] := by simp [headerText, Fields.write, crlf, CR]
          rw [hp, parseLoop_field syn (f + 1) wf nv hnv CR [] false (by decide)]
          unfold afterLine endMarker
          simp [readBytesNL, CR, LF, ParseRes.endsEmpty]
        | cons nv2 rest2 =>
          have hnv2 := hc nv2 (by simp)
          obtain ⟨n2, v2⟩ := nv2
          cases hn2 : n2 with
          | nil => exact absurd hn2 hnv2.ne
          | cons b t =>
            have hb : isWs b = false := hnv2.nows b (by simp [hn2])
            have hbsp : (b == SP || b == HT) = false := by
              cases hq : (b == SP || b == HT) with
              | false => rfl
              | true =>
                simp at hq
                rcases hq with e | e <;> (subst e; simp [isWs, SP, HT] at hb)
            subst hn2
            -- what is left starts with the first byte of the next name
            have hshape : ∃ more, (headerText ((b :: t, v2) :: rest2)).take j = b :: more := by
              rw [headerText_cons]
              cases j with
              | zero => omega
              | succ j' =>
                refine ⟨(t ++ [COLON, SP] ++ v2 ++ crlf ++ headerText rest2).take j', ?_⟩
                simp [lineOf, List.append_assoc]
            obtain ⟨more, hmore⟩ := hshape
            have hih := ih (wf ++ [nv]) (f + 1) j (by simp) (fun x hx => hc x (by simp [hx])) (by simp at hf ⊢; omega) hj2
            rw [hmore] at hih ⊢
            rw [parseLoop_field syn (f + 1) wf nv hnv b more false hbsp, afterLine_next _ _ b more false hb]
            exact hih

end Gowarc
