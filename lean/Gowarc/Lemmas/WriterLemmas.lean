/-
  Helper lemmas about the file list of the sequential writer model (Model/Writer.lean).
-/
import Gowarc.Model.Writer
namespace Gowarc.SW
open Gowarc

theorem modFile_ids (fs : List WFile) (id : Nat) (g : WFile → WFile) (hg : ∀ f, (g f).id = f.id) :
    (modFile fs id g).map (·.id) = fs.map (·.id) := by
  unfold modFile
  rw [List.map_map]
  apply List.map_congr_left
  intro f _
  simp only [Function.comp]
  split
  · exact hg f
  · rfl

theorem mem_modFile (fs : List WFile) (id : Nat) (g : WFile → WFile) (f' : WFile) :
    f' ∈ modFile fs id g ↔ ∃ f ∈ fs, f' = if f.id == id then g f else f := by
  unfold modFile
  simp only [List.mem_map]
  constructor
  · rintro ⟨f, hf, rfl⟩; exact ⟨f, hf, rfl⟩
  · rintro ⟨f, hf, rfl⟩; exact ⟨f, hf, rfl⟩

theorem modFile_other (fs : List WFile) (id : Nat) (g : WFile → WFile) (f : WFile) (hf : f ∈ fs) (hne : f.id ≠ id) :
    f ∈ modFile fs id g := by
  rw [mem_modFile]
  refine ⟨f, hf, ?_⟩
  have : (f.id == id) = false := by simp [hne]
  simp [this]

theorem modFile_append_last (fs : List WFile) (l : WFile) (g : WFile → WFile) (hne : ∀ f ∈ fs, f.id ≠ l.id) :
    modFile (fs ++ [l]) l.id g = fs ++ [g l] := by
  unfold modFile
  rw [List.map_append]
  congr 1
  · conv => rhs; rw [← List.map_id fs]
    apply List.map_congr_left
    intro f hf
    have : (f.id == l.id) = false := by simp [hne f hf]
    simp [this]
  · simp

/-- a file list whose ids are 1 … n in order -/
def Ordered (fs : List WFile) (n : Nat) : Prop := fs.map (·.id) = List.range' 1 n

theorem Ordered.mem_le {fs : List WFile} {n : Nat} (h : Ordered fs n) (f : WFile) (hf : f ∈ fs) : 1 ≤ f.id ∧ f.id ≤ n := by
  have : f.id ∈ fs.map (·.id) := List.mem_map_of_mem hf
  rw [h, List.mem_range'_1] at this
  omega

theorem Ordered.snoc {fs : List WFile} {n : Nat} (h : Ordered fs n) (l : WFile) (hl : l.id = n + 1) : Ordered (fs ++ [l]) (n + 1) := by
  unfold Ordered at *
  rw [List.map_append, h, List.range'_1_concat]
  simp [hl]; omega

/-- with ordered ids and n ≥ 1 the list ends with the file n -/
theorem Ordered.last {fs : List WFile} {n : Nat} (h : Ordered fs (n + 1)) :
    ∃ init l, fs = init ++ [l] ∧ l.id = n + 1 ∧ Ordered init n := by
  unfold Ordered at *
  have hlen : fs.length = n + 1 := by
    have := congrArg List.length h
    simpa using this
  have hne : fs ≠ [] := by intro e; simp [e] at hlen
  refine ⟨fs.dropLast, fs.getLast hne, (List.dropLast_concat_getLast hne).symm, ?_, ?_⟩
  · have h2 : (fs.map (·.id)).getLast (by simpa using hne) = (fs.getLast hne).id := List.getLast_map (by simpa using hne)
    rw [← h2]
    simp only [h]
    rw [List.getLast_range']
    omega
  · rw [List.map_dropLast, h, List.range'_1_concat, List.dropLast_concat]

theorem fileSize_append_last (fs : List WFile) (l : WFile) (hne : ∀ f ∈ fs, f.id ≠ l.id) :
    fileSize (fs ++ [l]) l.id = l.size := by
  unfold fileSize
  rw [List.find?_append]
  have : fs.find? (fun f => f.id == l.id) = none := by
    rw [List.find?_eq_none]
    intro f hf
    simp [hne f hf]
  simp [this]

theorem size_append_member (f : WFile) (m : Member) :
    ({ f with members := f.members ++ [m] } : WFile).content = f.content ++ m.bytes := by
  simp [WFile.content]

end Gowarc.SW
