/-
  Line reads through a read-only slice view: the 100-byte loop of slice.ReadBytes returns exactly the line a plain
  buffer holding the slice's bytes returns — for every spill threshold, every position and length of the view, every
  delimiter position. (The loop only relies on the contract of ReadAtOffset proved in BufferLemmas.)
-/
import Gowarc.Lemmas.BufferLemmas
namespace Gowarc
open Spec

theorem take_append_drop_len (n : Nat) (x : Bytes) : x = x.take n ++ x.drop (x.take n).length := by
  by_cases h : n ≤ x.length
  · have : (x.take n).length = n := by simp [h]
    rw [this, List.take_append_drop]
  · have : x.take n = x := List.take_of_length_le (by omega)
    rw [this]; simp

theorem Slice.lineLoop_spec (s : Slice) (b : Buf) (d : UInt8) (h : b.Inv) (fuel off : Nat) (acc : Bytes)
    (hfuel : (SBuf.view b.data s.soff s.len).length ≤ off + fuel * 100) :
    s.lineLoop b d fuel off acc =
      (acc ++ (specLine (SBuf.view b.data s.soff s.len) off d).1, (specLine (SBuf.view b.data s.soff s.len) off d).2.1,
       (specLine (SBuf.view b.data s.soff s.len) off d).2.2) := by
  generalize hV : SBuf.view b.data s.soff s.len = V at hfuel ⊢
  induction fuel generalizing off acc with
  | zero =>
    have hd : V.drop off = [] := List.drop_of_length_le (by omega)
    simp [Slice.lineLoop, specLine, hd, Buf.indexOf]; omega
  | succ k ih =>
    obtain ⟨r1, r2, r3⟩ := Slice.readAt_spec s b off 100 h
    rw [hV] at r1 r2
    simp only [SBuf.readAt] at r1
    unfold Slice.lineLoop
    generalize hR : s.readAt b off 100 = R at r1 r2 r3 ⊢
    have hsplit : V.drop off = R.1 ++ V.drop (off + R.1.length) := by
      have := take_append_drop_len 100 (V.drop off)
      rw [← r1, List.drop_drop] at this
      exact this
    by_cases hpos : R.1.length > 0
    · simp only [hpos, ↓reduceIte]
      cases hi : Buf.indexOf d R.1 with
      | some i =>
        have hlt := indexOf_lt _ _ _ hi
        have hfull : Buf.indexOf d (V.drop off) = some i := by rw [hsplit, indexOf_append, hi]
        simp only [specLine, hfull]
        refine Prod.ext ?_ rfl
        simp only
        congr 1
        rw [r1, List.take_take]
        congr 1
        rw [r1] at hlt; simp at hlt; omega
      | none =>
        simp only
        by_cases hflag : R.2 = true
        · simp only [hflag, ↓reduceIte]
          have hend := r2 hflag
          have hrest : V.drop (off + R.1.length) = [] := List.drop_of_length_le hend
          have hall : V.drop off = R.1 := by rw [hsplit, hrest]; simp
          have hl : (V.drop off).length = R.1.length := by rw [hall]
          simp only [List.length_drop] at hl
          have hspec : specLine V off d = (R.1, true, max off V.length) := by
            unfold specLine; rw [hall, hi]
          rw [hspec]
          refine Prod.ext rfl (Prod.ext rfl ?_)
          simp only
          omega
        · simp only [hflag, Bool.false_eq_true, ↓reduceIte]
          have hfull : Buf.indexOf d (V.drop off) = (Buf.indexOf d (V.drop (off + R.1.length))).map (· + R.1.length) := by
            conv => lhs; rw [hsplit, indexOf_append, hi]
          -- fuel for the recursive call
          have hlen_le : R.1.length ≤ 100 := by rw [r1]; simp; omega
          have hin : off + R.1.length ≤ V.length := by
            have h2 : R.1.length ≤ (V.drop off).length := by rw [r1]; simp only [List.length_take, List.length_drop]; omega
            simp only [List.length_drop] at h2
            omega
          have hfuel' : V.length ≤ off + R.1.length + k * 100 := by
            by_cases hfull100 : R.1.length = 100
            · rw [hfull100]; omega
            · -- a short read: everything was delivered
              have hshort : R.1.length < 100 := by omega
              have hvl : (V.drop off).length ≤ R.1.length := by
                rw [r1]; simp only [List.length_take, List.length_drop]
                rw [r1] at hshort; simp only [List.length_take, List.length_drop] at hshort
                omega
              simp only [List.length_drop] at hvl
              omega
          rw [ih (off + R.1.length) (acc ++ R.1) hfuel']
          simp only [specLine, hfull]
          cases hj : Buf.indexOf d (V.drop (off + R.1.length)) with
          | none =>
            simp only [Option.map_none, List.append_assoc]
            refine Prod.ext ?_ (Prod.ext rfl ?_)
            · simp only; rw [← hsplit]
            · simp only; omega
          | some j =>
            simp only [Option.map_some, List.append_assoc]
            refine Prod.ext ?_ (Prod.ext rfl ?_)
            · simp only
              congr 1
              have hk : (V.drop off).take (j + R.1.length + 1) = R.1 ++ (V.drop (off + R.1.length)).take (j + 1) := by
                conv => lhs; rw [hsplit]
                rw [List.take_append]
                have h1 : R.1.take (j + R.1.length + 1) = R.1 := List.take_of_length_le (by omega)
                have h2 : j + R.1.length + 1 - R.1.length = j + 1 := by omega
                rw [h1, h2]
              rw [hk]
            · simp only; omega
    · have h0 : R.1 = [] := by cases hr : R.1 with | nil => rfl | cons a t => rw [hr] at hpos; simp at hpos
      have hflag : R.2 = true := r3 h0 (by omega)
      simp only [hpos, ↓reduceIte, hflag]
      have hd : V.drop off = [] := by
        have := r2 hflag
        rw [h0] at this
        exact List.drop_of_length_le (by simpa using this)
      simp only [specLine, hd, Buf.indexOf, List.append_nil]
      refine Prod.ext rfl (Prod.ext rfl ?_)
      simp only
      have : V.length ≤ off := by
        have := congrArg List.length hd
        simp at this; omega
      omega

/-- **slice.ReadBytes / ReadString refine the plain buffer's line read** -/
theorem Slice.readBytes_spec (s : Slice) (b : Buf) (d : UInt8) (h : b.Inv) :
    (s.readBytes b d).1 = ((specLine (SBuf.view b.data s.soff s.len) s.pos d).1, (specLine (SBuf.view b.data s.soff s.len) s.pos d).2.1) ∧
    (s.readBytes b d).2.pos = (specLine (SBuf.view b.data s.soff s.len) s.pos d).2.2 := by
  have hfuel : (SBuf.view b.data s.soff s.len).length ≤ s.pos + (b.size / 100 + 2) * 100 := by
    have hv : (SBuf.view b.data s.soff s.len).length ≤ b.data.length := by
      unfold SBuf.view; cases s.len <;> simp <;> omega
    have hs : b.size = b.data.length := Buf.size_eq b
    have : b.size < (b.size / 100 + 1) * 100 := by
      have := Nat.lt_div_mul_add (a := b.size) (b := 100) (by decide)
      omega
    omega
  have hloop := Slice.lineLoop_spec s b d h (b.size / 100 + 2) s.pos [] hfuel
  unfold Slice.readBytes
  cases hl : s.len with
  | none => rw [hl] at hloop; simp only [hloop, List.nil_append]; exact ⟨trivial, trivial⟩
  | some l =>
    by_cases hle : l ≤ s.pos
    · simp only [hle, ↓reduceIte]
      have hv : (SBuf.view b.data s.soff (some l)).length ≤ s.pos := by
        unfold SBuf.view; simp; omega
      have hd : (SBuf.view b.data s.soff (some l)).drop s.pos = [] := List.drop_of_length_le hv
      simp only [specLine, hd, Buf.indexOf]
      exact ⟨trivial, by omega⟩
    · rw [hl] at hloop; simp only [hle, ↓reduceIte, hloop, List.nil_append]; exact ⟨trivial, trivial⟩

end Gowarc
