/-
  digest.go, detectEncoding / newDigest on the values `format` writes: lengths of the three encodings, character classes
  of their output, and the identity of the normalisations (ToLower for base16, ToUpper for base32) on that output.
-/
import Gowarc.Props.C03enc
namespace Gowarc
open Gowarc.Props.C03

/-! ### lengths -/

theorem b32Group_length (g : Bytes) : (b32Group g).length = 8 := by
  unfold b32Group
  simp only [List.length_append, List.length_map, List.length_take, List.length_replicate, List.length_cons, List.length_nil]
  split <;> omega

theorem b32Enc_length (b : Bytes) : (b32Enc b).length = b32EncodedLen b.length := by
  unfold b32EncodedLen
  fun_induction b32Enc b with
  | case1 => rfl
  | case2 a b c d e rest ih =>
    simp only [List.length_append, b32Group_length, ih, List.length_cons]
    omega
  | case3 g h1 h2 =>
    rw [b32Group_length]
    match g, h1, h2 with
    | [], h1, _ => exact absurd rfl h1
    | [a], _, _ => simp
    | [a, b], _, _ => simp
    | [a, b, c], _, _ => simp
    | [a, b, c, d], _, _ => simp
    | a :: b :: c :: d :: e :: rest, _, h2 => exact absurd rfl (h2 a b c d e rest)

theorem b64Group_length (g : Bytes) : (b64Group g).length = 4 := by
  unfold b64Group
  simp only [List.length_append, List.length_map, List.length_take, List.length_replicate, List.length_cons, List.length_nil]
  split <;> omega

theorem b64Enc_length (b : Bytes) : (b64Enc b).length = b64EncodedLen b.length := by
  unfold b64EncodedLen
  fun_induction b64Enc b with
  | case1 => rfl
  | case2 a b c rest ih =>
    simp only [List.length_append, b64Group_length, ih, List.length_cons]
    omega
  | case3 g h1 h2 =>
    rw [b64Group_length]
    match g, h1, h2 with
    | [], h1, _ => exact absurd rfl h1
    | [a], _, _ => simp
    | [a, b], _, _ => simp
    | a :: b :: c :: rest, _, h2 => exact absurd rfl (h2 a b c rest)

/-! ### character classes of the encoders' output -/

theorem hexEnc_all (P : UInt8 → Prop) (hc : ∀ n : UInt8, n < 16 → P (hexChar n)) (b : Bytes) : ∀ x ∈ hexEnc b, P x := by
  intro x hx
  unfold hexEnc at hx
  simp only [List.mem_flatMap, List.mem_cons, List.mem_nil_iff, or_false] at hx
  obtain ⟨y, _, h | h⟩ := hx
  · subst h; exact hc _ (hi_lt y)
  · subst h; exact hc _ (lo_lt y)

theorem b32Enc_all (P : UInt8 → Prop) (hc : ∀ n : UInt8, n < 32 → P (b32Char n)) (hp : P 61) (b : Bytes) :
    ∀ x ∈ b32Enc b, P x := by
  fun_induction b32Enc b with
  | case1 => intro x hx; cases hx
  | case2 a b c d e rest ih =>
    intro x hx
    rw [b32Group5] at hx
    simp only [List.cons_append, List.nil_append, List.mem_cons] at hx
    rcases hx with h | h | h | h | h | h | h | h | h
    all_goals first
      | (subst h; first | exact hc _ (shr3_lt32 _) | exact hc _ (and31_lt32 _))
      | exact ih x h
  | case3 g h1 h2 =>
    intro x hx
    match g, h1, h2 with
    | [], h1, _ => exact absurd rfl h1
    | [a], _, _ =>
      simp [b32Group] at hx
      rcases hx with h | h | h <;> subst h <;> first | exact hc _ (shr3_lt32 _) | exact hc _ (and31_lt32 _) | exact hp
    | [a, b], _, _ =>
      simp [b32Group] at hx
      rcases hx with h | h | h | h | h <;> subst h <;> first | exact hc _ (shr3_lt32 _) | exact hc _ (and31_lt32 _) | exact hp
    | [a, b, c], _, _ =>
      simp [b32Group] at hx
      rcases hx with h | h | h | h | h | h <;> subst h <;> first | exact hc _ (shr3_lt32 _) | exact hc _ (and31_lt32 _) | exact hp
    | [a, b, c, d], _, _ =>
      simp [b32Group] at hx
      rcases hx with h | h | h | h | h | h | h | h <;> subst h <;> first | exact hc _ (shr3_lt32 _) | exact hc _ (and31_lt32 _) | exact hp
    | a :: b :: c :: d :: e :: rest, _, h2 => exact absurd rfl (h2 a b c d e rest)

/-- Go's ToLower / ToUpper leave a string of ASCII bytes byte-wise mapped; the UTF-8 repair of the model is the identity -/
theorem utf8Repair_ascii (l : Bytes) (h : ∀ x ∈ l, x < 128) : ∀ fuel, utf8Repair fuel l = l := by
  induction l with
  | nil => intro fuel; cases fuel <;> rfl
  | cons b rest ih =>
    intro fuel
    cases fuel with
    | zero => rfl
    | succ f =>
      have hb : b < 0x80 := h b (by simp)
      rw [utf8Repair.eq_def]
      simp only [hb, ↓reduceIte]
      rw [ih (fun x hx => h x (by simp [hx]))]

theorem map_id_of_forall {f : UInt8 → UInt8} (l : Bytes) (h : ∀ x ∈ l, f x = x) : l.map f = l := by
  induction l with
  | nil => rfl
  | cons a r ih => simp [h a (by simp), ih (fun x hx => h x (by simp [hx]))]

theorem hexChar_lt128 : ∀ n : UInt8, n < 16 → hexChar n < 128 := by decide
theorem hexChar_ne_pad : ∀ n : UInt8, n < 16 → hexChar n ≠ 61 := by decide
theorem b32Char_upper : ∀ n : UInt8, n < 32 → toUpperB (b32Char n) = b32Char n := by decide
theorem b32Char_lt128 : ∀ n : UInt8, n < 32 → b32Char n < 128 := by decide

theorem hexEnc_normal (b : Bytes) : utf8Repair (hexEnc b).length (lowerAscii (hexEnc b)) = hexEnc b := by
  have hl : lowerAscii (hexEnc b) = hexEnc b :=
    map_id_of_forall _ (hexEnc_all (fun x => toLowerB x = x) hexChar_lower b)
  rw [hl]
  exact utf8Repair_ascii _ (hexEnc_all (fun x => x < 128) hexChar_lt128 b) _

theorem b32Enc_normal (b : Bytes) : utf8Repair (b32Enc b).length (upperAscii (b32Enc b)) = b32Enc b := by
  have hl : upperAscii (b32Enc b) = b32Enc b :=
    map_id_of_forall _ (b32Enc_all (fun x => toUpperB x = x) b32Char_upper (by decide) b)
  rw [hl]
  exact utf8Repair_ascii _ (b32Enc_all (fun x => x < 128) b32Char_lt128 (by decide) b) _

/-! ### the last character decides between base16 and base32 for MD5 -/

theorem hexEnc_last_ne_pad (b : Bytes) : (hexEnc b).getLast? ≠ some 61 := by
  intro h
  have hm : (61 : UInt8) ∈ hexEnc b := List.mem_of_getLast? h
  exact hexEnc_all (fun x => x ≠ 61) hexChar_ne_pad b 61 hm rfl

/-- a base32 rendering whose input length is not a multiple of 5 ends in padding -/
theorem b32Enc_last_pad (b : Bytes) (h : b.length % 5 ≠ 0) : (b32Enc b).getLast? = some 61 := by
  fun_induction b32Enc b with
  | case1 => simp at h
  | case2 a b c d e rest ih =>
    have hr : rest.length % 5 ≠ 0 := by simp only [List.length_cons] at h; omega
    have hne : b32Enc rest ≠ [] := by
      intro he
      have := b32Enc_length rest
      rw [he] at this
      simp only [List.length_nil, b32EncodedLen] at this
      omega
    rw [List.getLast?_append, ih hr]
    rfl
  | case3 g h1 h2 =>
    match g, h1, h2 with
    | [], h1, _ => exact absurd rfl h1
    | [a], _, _ => simp [b32Group]
    | [a, b], _, _ => simp [b32Group]
    | [a, b, c], _, _ => simp [b32Group]
    | [a, b, c, d], _, _ => simp [b32Group]
    | a :: b :: c :: d :: e :: rest, _, h2 => exact absurd rfl (h2 a b c d e rest)

end Gowarc
