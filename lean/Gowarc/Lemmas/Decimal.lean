/-
  strconv round trip for non-negative numbers: the decimal rendering (`strconv.FormatInt`, modelled by `natToDec`) parses
  back (`strconv.ParseInt(s, 10, 64)`, modelled by `parseInt10Val`) to the same number, for every number an int64 holds.
-/
import Gowarc.Model.Record
namespace Gowarc

theorem digit_byte (c : Char) (h : c.isDigit = true) :
    isDigit (UInt8.ofNat c.toNat) = true ∧ (UInt8.ofNat c.toNat).toNat - 48 = c.toNat - 48 := by
  have h1 : 48 ≤ c.toNat ∧ c.toNat ≤ 57 := by
    simp only [Char.isDigit, Bool.and_eq_true, decide_eq_true_eq] at h
    constructor
    · have := h.1; exact this
    · have := h.2; exact this
  have h2 : (UInt8.ofNat c.toNat).toNat = c.toNat := by
    simp only [UInt8.toNat_ofNat']
    omega
  constructor
  · unfold isDigit
    simp only [Bool.and_eq_true, decide_eq_true_eq, UInt8.le_iff_toNat_le, h2]
    exact ⟨by simpa using h1.1, by simpa using h1.2⟩
  · rw [h2]

theorem foldl_digits (l : List Char) (hl : ∀ c ∈ l, c.isDigit = true) (init : Nat) :
    (l.map (fun c => UInt8.ofNat c.toNat)).foldl (fun acc b => acc * 10 + (b.toNat - 48)) init = Nat.ofDigitChars 10 l init := by
  induction l generalizing init with
  | nil => simp [Nat.ofDigitChars]
  | cons c t ih =>
    simp only [List.map_cons, List.foldl_cons, Nat.ofDigitChars_cons]
    rw [(digit_byte c (hl c (by simp))).2, ih (fun x hx => hl x (by simp [hx]))]
    congr 1
    have h0 : '0'.toNat = 48 := rfl
    rw [h0]
    omega

theorem digitsVal_natToDec (n : Nat) : digitsVal (natToDec n) = n := by
  unfold digitsVal natToDec
  rw [foldl_digits _ (fun c hc => Nat.isDigit_of_mem_toDigits (by decide) (by decide) hc)]
  exact Nat.ofDigitChars_toDigits (by decide) (by decide)

theorem natToDec_all_digits (n : Nat) : (natToDec n).all isDigit = true := by
  unfold natToDec
  rw [List.all_eq_true]
  intro b hb
  rw [List.mem_map] at hb
  obtain ⟨c, hc, rfl⟩ := hb
  exact (digit_byte c (Nat.isDigit_of_mem_toDigits (by decide) (by decide) hc)).1

theorem natToDec_ne_nil (n : Nat) : natToDec n ≠ [] := by
  unfold natToDec
  intro h
  rw [List.map_eq_nil_iff] at h
  exact Nat.toDigits_ne_nil h

/-- **ParseInt(FormatInt(n)) = n** for every n an int64 holds -/
theorem parseInt10Val_natToDec (n : Nat) (h : n ≤ 9223372036854775807) : parseInt10Val (natToDec n) = (n : Int) := by
  have hd := natToDec_all_digits n
  have hv := digitsVal_natToDec n
  have hne := natToDec_ne_nil n
  cases hs : natToDec n with
  | nil => exact absurd hs hne
  | cons c rest =>
    rw [hs] at hd hv
    have hc : isDigit c = true := by simp only [List.all_cons, Bool.and_eq_true] at hd; exact hd.1
    have h45 : c ≠ 45 := by intro e; rw [e] at hc; revert hc; decide
    have h43 : c ≠ 43 := by intro e; rw [e] at hc; revert hc; decide
    unfold parseInt10Val
    split
    · rename_i r heq; simp only [List.cons.injEq] at heq; exact absurd heq.1 h45
    · rename_i r heq; simp only [List.cons.injEq] at heq; exact absurd heq.1 h43
    · simp only [List.isEmpty_cons, hd, Bool.not_true, Bool.or_self, Bool.false_eq_true, ↓reduceIte, hv, h]
      rfl

theorem contentLengthOf_natToDec (h : Fields) (n : Nat) (hn : n ≤ 9223372036854775807)
    (hhas : h.has (bs "Content-Length") = true) (hget : h.get (bs "Content-Length") = natToDec n) :
    contentLengthOf h = (n : Int) := by
  unfold contentLengthOf
  rw [hhas, hget]
  exact parseInt10Val_natToDec n hn

end Gowarc
