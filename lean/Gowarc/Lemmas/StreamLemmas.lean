import Gowarc.Model.Record
import Gowarc.Lemmas.ByteDecide
namespace Gowarc

/-! ### readBytesNL: the line reader loses nothing, duplicates nothing, and makes progress -/

theorem readBytesNL_append (l : Bytes) : (readBytesNL l).1 ++ (readBytesNL l).2.1 = l := by
  induction l with
  | nil => rfl
  | cons b rest ih =>
    unfold readBytesNL
    split
    · simp
    · simp [ih]

theorem readBytesNL_found (l : Bytes) (h : (readBytesNL l).2.2 = true) :
    ∃ pre, (readBytesNL l).1 = pre ++ [LF] ∧ LF ∉ pre := by
  induction l with
  | nil => simp [readBytesNL] at h
  | cons b rest ih =>
    unfold readBytesNL at h ⊢
    split
    · rename_i hb
      exact ⟨[], by simp at hb; simp [hb], by simp⟩
    · rename_i hb
      simp only [hb] at h
      obtain ⟨pre, hp, hn⟩ := ih (by simpa using h)
      refine ⟨b :: pre, by simp [hp], ?_⟩
      simp only [List.mem_cons, not_or]
      exact ⟨fun e => hb (by simp [e]), hn⟩

theorem readBytesNL_notfound (l : Bytes) (h : (readBytesNL l).2.2 = false) :
    (readBytesNL l).1 = l ∧ (readBytesNL l).2.1 = [] ∧ LF ∉ l := by
  induction l with
  | nil => simp [readBytesNL]
  | cons b rest ih =>
    unfold readBytesNL at h ⊢
    split
    · rename_i hb; simp only [beq_iff_eq] at hb; simp [hb] at h
    · rename_i hb
      simp only [hb] at h
      obtain ⟨h1, h2, h3⟩ := ih (by simpa using h)
      refine ⟨by simp [h1], by simp [h2], ?_⟩
      simp only [List.mem_cons, not_or]
      exact ⟨fun e => hb (by simp [e]), h3⟩

/-- a line that ends in LF is read back exactly, whatever follows -/
theorem readBytesNL_line (pre rest : Bytes) (h : LF ∉ pre) :
    readBytesNL (pre ++ [LF] ++ rest) = (pre ++ [LF], rest, true) := by
  induction pre with
  | nil => simp [readBytesNL]
  | cons b t ih =>
    simp only [List.mem_cons, not_or] at h
    have hb : (b == LF) = false := by simp; exact fun e => h.1 e.symm
    simp only [List.cons_append, readBytesNL, hb, Bool.false_eq_true, ↓reduceIte]
    have := ih h.2
    simp only [List.append_assoc, List.cons_append, List.nil_append] at this ⊢
    rw [this]

theorem readBytesNL_progress (l : Bytes) (h : l ≠ []) : (readBytesNL l).2.1.length < l.length := by
  have := congrArg List.length (readBytesNL_append l)
  simp only [List.length_append] at this
  have hne : (readBytesNL l).1 ≠ [] := by
    cases l with
    | nil => exact absurd rfl h
    | cons b rest => unfold readBytesNL; split <;> simp
  have : 0 < (readBytesNL l).1.length := List.length_pos_iff.mpr hne
  omega

/-! ### HTTP head splitting: head ++ rest = content -/

theorem headerBytesLoop_append (fuel : Nat) (acc rest : Bytes) :
    (headerBytesLoop fuel acc rest).1 ++ (headerBytesLoop fuel acc rest).2.1 = acc ++ rest ∨
    (fuel = 0) := by
  induction fuel generalizing acc rest with
  | zero => right; rfl
  | succ k ih =>
    left
    unfold headerBytesLoop
    split
    · rename_i hnf
      have := readBytesNL_notfound rest (by simpa using hnf)
      simp [this.1]
    · split
      · simp [List.append_assoc, readBytesNL_append]
      · cases k with
        | zero => simp [headerBytesLoop, List.append_assoc, readBytesNL_append]
        | succ k' =>
          rcases ih (acc ++ (readBytesNL rest).1) (readBytesNL rest).2.1 with h | h
          · rw [h]; simp [List.append_assoc, readBytesNL_append]
          · omega

/-- **the HTTP protocol header and the payload partition the content**: nothing is lost or duplicated at the split -/
theorem headerBytes_append (content : Bytes) : (headerBytes content).1 ++ (headerBytes content).2.1 = content := by
  unfold headerBytes
  rcases headerBytesLoop_append (content.length + 1) [] content with h | h
  · simpa using h
  · omega

/-! ### junk skipping -/

theorem skipJunk_sound (fuel : Nat) (rest : Bytes) (off : Nat) (off' : Nat) (at_ : Bytes)
    (h : skipJunk fuel rest off = .inr (off', at_)) :
    off ≤ off' ∧ at_ = rest.drop (off' - off) ∧ isMagic at_ = true ∧ 5 ≤ at_.length := by
  induction fuel generalizing rest off with
  | zero => simp [skipJunk] at h
  | succ k ih =>
    unfold skipJunk at h
    split at h
    · simp at h
    · rename_i hlen
      split at h
      · rename_i hm
        simp at h
        obtain ⟨h1, h2⟩ := h
        subst h1 h2
        exact ⟨Nat.le_refl _, by simp, hm, by omega⟩
      · obtain ⟨h1, h2, h3, h4⟩ := ih (rest.drop 1) (off + 1) h
        refine ⟨by omega, ?_, h3, h4⟩
        rw [h2, List.drop_drop]
        congr 1; omega

end Gowarc
