/-
  Monotone rejection: whatever a stricter policy setting accepts, a more lenient one accepts too.

  `Rel P Q mL mS`: `mL` is a computation under the lenient setting, `mS` the same computation under the strict one. Started
  in states whose headers are related by `P` (the findings may differ at will), if the strict one returns a value, the
  lenient one returns the SAME value and the headers are related by `Q`. `Mono` is `Rel Eq Eq`. Compositional over the
  validation monad.
-/
import Gowarc.Lemmas.ParserMono
import Gowarc.Lemmas.Frame
import Gowarc.Props.C20
namespace Gowarc

def Pol.le : Pol → Pol → Bool
  | .ignore, _ => true
  | .warn, .ignore => false
  | .warn, _ => true
  | .fail, .fail => true
  | .fail, _ => false

structure Pols where
  syn : Pol
  spec : Pol
  unk : Pol
  blk : Pol

structure Pols.le (L S : Pols) : Prop where
  syn : L.syn.le S.syn = true
  spec : L.spec.le S.spec = true
  unk : L.unk.le S.unk = true
  blk : L.blk.le S.blk = true

@[reducible] def Opts.withPol (o : Opts) (p : Pols) : Opts :=
  { o with syn := p.syn, spec := p.spec, unk := p.unk, blk := p.blk }

structure Rel {α} (P Q : Fields → Fields → Prop) (mL mS : M α) : Prop where
  h : ∀ sL sS, P sL.hdr sS.hdr → ∀ a sS', mS sS = (.ok a, sS') → ∃ sL', mL sL = (.ok a, sL') ∧ Q sL'.hdr sS'.hdr

abbrev Mono {α} (mL mS : M α) : Prop := Rel Eq Eq mL mS

/-- acceptance only: the values may differ -/
structure Acc {α} (P : Fields → Fields → Prop) (mL mS : M α) : Prop where
  h : ∀ sL sS, P sL.hdr sS.hdr → ∀ a sS', mS sS = (.ok a, sS') → ∃ b sL', mL sL = (.ok b, sL')

namespace Rel

theorem bind {α β} {P Q R} {mL mS : M α} {kL kS : α → M β} (hm : Rel P Q mL mS) (hk : ∀ a, Rel Q R (kL a) (kS a)) :
    Rel P R (mL >>= kL) (mS >>= kS) := by
  constructor
  intro sL sS hP b sS' hS
  simp only [M.bind_def] at hS ⊢
  cases hms : mS sS with
  | mk r s1 =>
    rw [hms] at hS
    cases r with
    | error e => simp at hS
    | ok a =>
      obtain ⟨sL1, hL1, hQ⟩ := hm.h sL sS hP a s1 hms
      rw [hL1]
      exact (hk a).h sL1 s1 hQ b sS' hS

theorem pure {α} {P} (a : α) : Rel P P (Pure.pure a : M α) (Pure.pure a) := by
  constructor
  intro sL sS hP b sS' hS
  simp only [M.pure_def, Prod.mk.injEq, Except.ok.injEq] at hS
  obtain ⟨rfl, rfl⟩ := hS
  exact ⟨sL, rfl, hP⟩

theorem failS {α} {P Q} (mL : M α) (t : Tag) : Rel P Q mL (M.fail t) := by
  constructor
  intro sL sS _ b sS' hS; simp at hS

theorem hdr : Rel Eq Eq M.hdr M.hdr := by
  constructor
  intro sL sS hP b sS' hS
  simp only [M.hdr_def, Prod.mk.injEq, Except.ok.injEq] at hS
  obtain ⟨rfl, rfl⟩ := hS
  exact ⟨sL, by simp [hP], hP⟩

theorem setHdr {P} (h : Fields) : Rel P Eq (M.setHdr h) (M.setHdr h) := by
  constructor
  intro sL sS _ b sS' hS
  simp only [M.setHdr_def, Prod.mk.injEq, Except.ok.injEq] at hS
  obtain ⟨_, rfl⟩ := hS
  exact ⟨_, rfl, rfl⟩

theorem site {P} (pL pS : Pol) (t : Tag) (h : pL.le pS = true) : Rel P P (Gowarc.site pL t) (Gowarc.site pS t) := by
  constructor
  intro sL sS hP b sS' hS
  cases pS <;> cases pL <;> simp_all [Pol.le] <;> (obtain ⟨_, rfl⟩ := hS; exact hP)

/-- a site whose condition itself depends on the policy (`o.spec != .ignore && …`) -/
theorem condSite' {P} (cL cS : Bool) (pL pS : Pol) (t : Tag) (h : pL = .fail → cL = true → pS = .fail ∧ cS = true) :
    Rel P P (Gowarc.condSite cL pL t) (Gowarc.condSite cS pS t) := by
  constructor
  intro sL sS hP b sS' hS
  have hb : b = () := rfl
  subst hb
  have hSh : sS'.hdr = sS.hdr := by
    have := (KeepHdr.condSite cS pS t).h sS
    rw [hS] at this; exact this
  rw [hSh]
  cases cL with
  | false => exact ⟨sL, rfl, hP⟩
  | true =>
    cases pL with
    | ignore => exact ⟨sL, rfl, hP⟩
    | warn => exact ⟨_, rfl, hP⟩
    | fail =>
      obtain ⟨rfl, rfl⟩ := h rfl rfl
      simp at hS

theorem condSite {P} (c : Bool) (pL pS : Pol) (t : Tag) (h : pL.le pS = true) :
    Rel P P (Gowarc.condSite c pL t) (Gowarc.condSite c pS t) := by
  apply condSite'
  intro hL hc
  subst hL
  cases pS <;> simp_all [Pol.le]

theorem condFail {P} (c : Bool) (t : Tag) : Rel P P (Gowarc.condFail c t) (Gowarc.condFail c t) := by
  cases c
  · exact pure ()
  · exact failS _ _

theorem ite {α} {P Q} {c : Prop} [Decidable c] {aL aS bL bS : M α} (h1 : c → Rel P Q aL aS) (h2 : ¬c → Rel P Q bL bS) :
    Rel P Q (if c then aL else bL) (if c then aS else bS) := by
  split
  · exact h1 ‹_›
  · exact h2 ‹_›

/-- a computation that does not look at the policies: same header ⇒ same value, same header -/
theorem of_frame {α} {m : M α} (h : Frame m) : Mono m m := by
  constructor
  intro sL sS hP b sS' hS
  obtain ⟨hL, fL⟩ := sL
  obtain ⟨hS', fS⟩ := sS
  simp only at hP
  subst hP
  have e1 := h.h hL fL []
  have e2 := h.h hL fS []
  simp only [List.append_nil] at e1 e2
  rw [e2] at hS
  simp only [Prod.mk.injEq] at hS
  obtain ⟨hv, hs⟩ := hS
  refine ⟨⟨(m ⟨hL, []⟩).2.hdr, fL ++ (m ⟨hL, []⟩).2.fnd⟩, ?_, ?_⟩
  · rw [e1, hv]
  · rw [← hs]

/-- reading the header to decide what to do next, when the decision is the same on related headers -/
theorem hdrDep {α} {P Q} {kL kS : Fields → M α} (h : ∀ hL hS, P hL hS → Rel P Q (kL hL) (kS hS)) :
    Rel P Q (M.hdr >>= kL) (M.hdr >>= kS) := by
  constructor
  intro sL sS hP b sS' hS
  simp only [M.bind_def, M.hdr_def] at hS ⊢
  exact (h sL.hdr sS.hdr hP).h sL sS hP b sS' hS

/-- rewriting the header as a function of the header -/
theorem modify {P Q : Fields → Fields → Prop} {gL gS : Fields → Fields} (h : ∀ hL hS, P hL hS → Q (gL hL) (gS hS)) :
    Rel P Q (M.hdr >>= fun x => M.setHdr (gL x)) (M.hdr >>= fun x => M.setHdr (gS x)) := by
  constructor
  intro sL sS hP b sS' hS
  simp only [M.bind_def, M.hdr_def, M.setHdr_def, Prod.mk.injEq, Except.ok.injEq] at hS ⊢
  obtain ⟨_, rfl⟩ := hS
  exact ⟨_, ⟨trivial, rfl⟩, h _ _ hP⟩

theorem weaken {α} {P P' Q Q' : Fields → Fields → Prop} {mL mS : M α} (h : Rel P Q mL mS)
    (hp : ∀ a b, P' a b → P a b) (hq : ∀ a b, Q a b → Q' a b) : Rel P' Q' mL mS := by
  constructor
  intro sL sS hP b sS' hS
  obtain ⟨sL', h1, h2⟩ := h.h sL sS (hp _ _ hP) b sS' hS
  exact ⟨sL', h1, hq _ _ h2⟩

end Rel

namespace Acc

theorem of_rel {α} {P Q} {mL mS : M α} (h : Rel P Q mL mS) : Acc P mL mS := by
  constructor
  intro sL sS hP b sS' hS
  obtain ⟨sL', h1, _⟩ := h.h sL sS hP b sS' hS
  exact ⟨b, sL', h1⟩

theorem bind {α β} {P Q} {mL mS : M α} {kL kS : α → M β} (hm : Rel P Q mL mS) (hk : ∀ a, Acc Q (kL a) (kS a)) :
    Acc P (mL >>= kL) (mS >>= kS) := by
  constructor
  intro sL sS hP b sS' hS
  simp only [M.bind_def] at hS ⊢
  cases hms : mS sS with
  | mk r s1 =>
    rw [hms] at hS
    cases r with
    | error e => simp at hS
    | ok a =>
      obtain ⟨sL1, hL1, hQ⟩ := hm.h sL sS hP a s1 hms
      rw [hL1]
      exact (hk a).h sL1 s1 hQ b sS' hS

theorem total {α} {P} {mS : M α} (mL : M α) (h : ∀ s, ∃ b s', mL s = (.ok b, s')) : Acc P mL mS := by
  constructor
  intro sL _ _ _ _ _
  exact h sL

end Acc

theorem Mono.bind {α β} {mL mS : M α} {kL kS : α → M β} (hm : Mono mL mS) (hk : ∀ a, Mono (kL a) (kS a)) :
    Mono (mL >>= kL) (mS >>= kS) := Rel.bind hm hk

macro "mono" : tactic => `(tactic| repeat' (first
  | assumption
  | exact Rel.hdr
  | exact Rel.setHdr _
  | exact Rel.pure _
  | exact Rel.failS _ _
  | exact Rel.condFail _ _
  | exact Rel.condSite _ _ _ _ (by assumption)
  | exact Rel.site _ _ _ (by assumption)
  | with_reducible apply Mono.bind
  | with_reducible apply Rel.ite
  | intro _))

end Gowarc
