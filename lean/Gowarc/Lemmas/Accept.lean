/-
  Lemmas for the validation side of the round trip (C01): a header set without spec defects stays without defects when
  the builder appends a digest field; validateHeader is silent on such a set under every policy.
-/
import Gowarc.Props.C17
import Gowarc.Props.C02e2e
import Gowarc.Props.C03detect
import Gowarc.Lemmas.RecordMono
namespace Gowarc
open Gowarc.Props.C17 Gowarc.Props.C20 Gowarc.Props.C03 Fields

/-! ### Set on an absent name appends -/

theorem setLoop_absent (k v : Bytes) (fs : Fields) (h : fs.any (fun p => p.1 == k) = false) :
    setLoop k v fs false = (fs, false) := by
  induction fs with
  | nil => rfl
  | cons a t ih =>
    obtain ⟨n, w⟩ := a
    simp only [List.any_cons, Bool.or_eq_false_iff] at h
    have hn : (n != k) = true := by simp only [bne, h.1]; rfl
    simp only [setLoop, hn, ↓reduceIte, ih h.2]

theorem set_absent (fs : Fields) (n v : Bytes) (h : fs.has n = false) : fs.set n v = fs ++ [(canon n, v)] := by
  unfold Fields.set
  unfold Fields.has at h
  rw [setLoop_absent (canon n) v fs h]
  simp

theorem get_append_other (fs : Fields) (k v key : Bytes) (hk : (k == canon key) = false) :
    Fields.get (fs ++ [(k, v)]) key = Fields.get fs key := by
  unfold Fields.get
  rw [List.find?_append]
  cases hf : fs.find? (fun nv => nv.1 == canon key) with
  | some x => simp
  | none => simp [List.find?, hk]

theorem has_append_other (fs : Fields) (k v key : Bytes) (hk : (k == canon key) = false) :
    Fields.has (fs ++ [(k, v)]) key = Fields.has fs key := by
  unfold Fields.has
  simp [List.any_append, hk]

theorem has_append_mono (fs : Fields) (k v key : Bytes) (h : Fields.has fs key = true) :
    Fields.has (fs ++ [(k, v)]) key = true := by
  unfold Fields.has at h ⊢
  simp only [List.any_append, h, Bool.true_or]

theorem getAll_append (fs : Fields) (k v key : Bytes) :
    Fields.getAll (fs ++ [(k, v)]) key = Fields.getAll fs key ++ (if k == canon key then [v] else []) := by
  unfold Fields.getAll
  rw [List.filter_append, List.map_append]
  congr 1
  by_cases hk : (k == canon key) = true <;> simp [List.filter, hk]

theorem typeFieldOf_append (h : Fields) (k v : Bytes) (hwt : (lowerKey k == bs "warc-type") = false) :
    typeFieldOf (h ++ [(k, v)]) = typeFieldOf h := by
  unfold typeFieldOf
  rw [List.find?_append]
  cases hf : h.find? (fun nv => lowerKey nv.1 == bs "warc-type") with
  | some x => simp
  | none => simp [List.find?, hwt]

theorem rtOf_append (h : Fields) (k v : Bytes) (hwt : (lowerKey k == bs "warc-type") = false) :
    rtOf (h ++ [(k, v)]) = rtOf h := by
  unfold rtOf; rw [typeFieldOf_append h k v hwt]

theorem contentLengthOf_append (h : Fields) (k v : Bytes) (hcl : (k == canon (bs "Content-Length")) = false) :
    contentLengthOf (h ++ [(k, v)]) = contentLengthOf h := by
  unfold contentLengthOf
  rw [has_append_other h k v _ hcl, get_append_other h k v _ hcl]

/-- record types are 0 (unknown) or one of the eight bits -/
theorem recTypeOfName_range (lc : Bytes) : recTypeOfName lc = 0 ∨ recTypeOfName lc &&& 255 ≠ 0 := by
  unfold recTypeOfName
  cases hf : Gen.stringToRecordType.find? (fun p => bs p.1 == lc) with
  | none => left; rfl
  | some p =>
    right
    have hm := List.mem_of_find?_eq_some hf
    have : ∀ q ∈ Gen.stringToRecordType, q.2 &&& 255 ≠ 0 := by decide
    exact this p hm

theorem rtOf_range (h : Fields) : rtOf h = 0 ∨ rtOf h &&& 255 ≠ 0 := recTypeOfName_range _

/-! ### a header set without defects stays without defects when a harmless fresh field is appended -/

theorem specDefects_nil_iff (Ω : Oracles) (ver : Nat) (h : Fields) :
    specDefects Ω ver h = [] ↔
      ((∀ nv ∈ h, fieldBad Ω ver (rtOf h) (defOf nv.1) nv.2 = false ∧
                  (!(defOf nv.1).repeatable && decide ((h.getAll nv.1).length > 1)) = false) ∧
       (∀ f ∈ Gen.requiredFields, h.has (bs f) = true) ∧ ctRule h (rtOf h) = false ∧ concRule h (rtOf h) = false) := by
  unfold specDefects
  simp only [List.append_eq_nil_iff, List.flatMap_eq_nil_iff, List.map_eq_nil_iff, List.filter_eq_nil_iff, fieldTags]
  constructor
  · rintro ⟨⟨⟨h1, h2⟩, h3⟩, h4⟩
    refine ⟨fun nv hnv => ?_, fun f hf => ?_, ?_, ?_⟩
    · have := h1 nv hnv
      constructor
      · by_cases hb : fieldBad Ω ver (rtOf h) (defOf nv.1) nv.2 = true
        · simp [hb] at this
        · simpa using hb
      · by_cases hb : (!(defOf nv.1).repeatable && decide ((h.getAll nv.1).length > 1)) = true
        · simp [hb] at this
        · simpa using hb
    · have := h2 f hf; simpa using this
    · by_cases hb : ctRule h (rtOf h) = true
      · simp [hb] at h3
      · simpa using hb
    · by_cases hb : concRule h (rtOf h) = true
      · simp [hb] at h4
      · simpa using hb
  · rintro ⟨h1, h2, h3, h4⟩
    refine ⟨⟨⟨fun nv hnv => ?_, fun f hf => ?_⟩, ?_⟩, ?_⟩
    · obtain ⟨a, b⟩ := h1 nv hnv; simp [a, b]
    · simp [h2 f hf]
    · simp [h3]
    · simp [h4]

theorem specDefects_add (Ω : Oracles) (ver : Nat) (h : Fields) (k v : Bytes)
    (hfresh : h.any (fun nv => nv.1 == k) = false) (hcanon : canon k = k)
    (hwt : (lowerKey k == bs "warc-type") = false)
    (hcl : (k == canon (bs "Content-Length")) = false) (hct : (k == canon (bs "Content-Type")) = false)
    (hcc : (k == canon (bs "WARC-Concurrent-To")) = false)
    (hgood : ∀ rt, (rt = 0 ∨ rt &&& 255 ≠ 0) → fieldBad Ω ver rt (defOf k) v = false)
    (hd : specDefects Ω ver h = []) : specDefects Ω ver (h ++ [(k, v)]) = [] := by
  rw [specDefects_nil_iff] at hd ⊢
  obtain ⟨h1, h2, h3, h4⟩ := hd
  rw [rtOf_append h k v hwt]
  refine ⟨fun nv hnv => ?_, fun f hf => has_append_mono h k v _ (h2 f hf), ?_, ?_⟩
  · rw [getAll_append]
    rcases List.mem_append.mp hnv with hm | hm
    · obtain ⟨a, b⟩ := h1 nv hm
      refine ⟨a, ?_⟩
      by_cases hk : (k == canon nv.1) = true
      · -- no entry of h is named k = canon nv.1
        have hnone : h.getAll nv.1 = [] := by
          unfold Fields.getAll
          rw [List.map_eq_nil_iff, List.filter_eq_nil_iff]
          intro x hx hx1
          have hkx : k = canon nv.1 := by simpa using hk
          have : (x.1 == k) = true := by rw [hkx]; exact hx1
          have hany : h.any (fun nv => nv.1 == k) = true := List.any_eq_true.mpr ⟨x, hx, this⟩
          rw [hfresh] at hany; cases hany
        simp [hnone, hk]
      · have hk' : (k == canon nv.1) = false := by simpa using hk
        simp only [hk', Bool.false_eq_true, ↓reduceIte, List.append_nil]
        exact b
    · simp only [List.mem_singleton] at hm
      subst hm
      simp only
      refine ⟨hgood _ (rtOf_range h), ?_⟩
      have hnone : h.getAll k = [] := by
        unfold Fields.getAll
        rw [List.map_eq_nil_iff, List.filter_eq_nil_iff]
        intro x hx hx1
        rw [hcanon] at hx1
        have hany : h.any (fun nv => nv.1 == k) = true := List.any_eq_true.mpr ⟨x, hx, hx1⟩
        rw [hfresh] at hany; cases hany
      simp [hnone, hcanon]
  · unfold ctRule at h3 ⊢
    rw [contentLengthOf_append h k v hcl, has_append_other h k v _ hct]; exact h3
  · unfold concRule at h4 ⊢
    rw [has_append_other h k v _ hcc]; exact h4

/-- the two digest fields are harmless: legal on every record type, no value check -/
theorem digest_field_facts (Ω : Oracles) (ver : Nat) (v : Bytes) :
    ∀ n ∈ [bs "WARC-Block-Digest", bs "WARC-Payload-Digest"],
      canon (canon n) = canon n ∧ (lowerKey (canon n) == bs "warc-type") = false ∧
      (canon n == canon (bs "Content-Length")) = false ∧ (canon n == canon (bs "Content-Type")) = false ∧
      (canon n == canon (bs "WARC-Concurrent-To")) = false ∧
      (∀ rt, (rt = 0 ∨ rt &&& 255 ≠ 0) → fieldBad Ω ver rt (defOf (canon n)) v = false) := by
  intro n hn
  have hdef : ∀ m ∈ [bs "WARC-Block-Digest", bs "WARC-Payload-Digest"],
      (validatorOf (defOf (canon m))) = (true, "none") ∧ (defOf (canon m)).recMask = 255 := by decide
  have hrest : ∀ m ∈ [bs "WARC-Block-Digest", bs "WARC-Payload-Digest"],
      canon (canon m) = canon m ∧ (lowerKey (canon m) == bs "warc-type") = false ∧
      (canon m == canon (bs "Content-Length")) = false ∧ (canon m == canon (bs "Content-Type")) = false ∧
      (canon m == canon (bs "WARC-Concurrent-To")) = false := by decide
  obtain ⟨a, b, c, d, e⟩ := hrest n hn
  refine ⟨a, b, c, d, e, ?_⟩
  intro rt hrt
  obtain ⟨hv, hm⟩ := hdef n hn
  unfold fieldBad
  rw [hv, hm]
  simp only [Bool.not_true, Bool.false_eq_true, ↓reduceIte, valueOk]
  by_cases h1 : (ver &&& (defOf (canon n)).specMask == 0) = true
  · simp [h1]
  · simp only [h1, Bool.false_eq_true, ↓reduceIte]
    rcases hrt with h0 | h0
    · simp [h0]
    · have : (rt == 0) = false := by
        cases hz : (rt == 0) with
        | false => rfl
        | true => exact absurd (by have : rt = 0 := by simpa using hz
                                   subst this; simp) h0
      simp [this, h0]

/-- setting a digest field that the header does not have keeps the header free of defects -/
theorem specDefects_set_digest (Ω : Oracles) (ver : Nat) (h : Fields) (n v : Bytes)
    (hn : n ∈ [bs "WARC-Block-Digest", bs "WARC-Payload-Digest"]) (habs : h.has n = false)
    (hd : specDefects Ω ver h = []) : specDefects Ω ver (h.set n v) = [] := by
  rw [set_absent h n v habs]
  obtain ⟨a, b, c, d, e, f⟩ := digest_field_facts Ω ver v n hn
  exact specDefects_add Ω ver h (canon n) v (by unfold Fields.has at habs; exact habs) a b c d e f hd

/-! ### validateHeader is silent on a header set without defects -/

/-- the header names a type, the reader's unknown-type axis lets it pass silently, and the set has no spec-axis defect -/
def HdrOK (op : Opts) (Ω : Oracles) (vid : Nat) (h : Fields) : Prop :=
  (typeFieldOf h).isEmpty = false ∧ (rtOf h = 0 → op.unk = .ignore) ∧ specDefects Ω vid h = []

theorem validateHeader_silent (op : Opts) (Ω : Oracles) (vid : Nat) (h : Fields) (f : List Tag) (hok : HdrOK op Ω vid h) :
    validateHeader op Ω vid ⟨h, f⟩ = (.ok (rtOf h), ⟨h, f⟩) := by
  obtain ⟨ht, hu, hd⟩ := hok
  unfold validateHeader resolveRecordType
  simp only [M.bind_def, M.hdr_def, ht, condSite_false]
  have h2 : condSite (rtOf h == 0) op.unk .hdrUnknownType ⟨h, f⟩ = (.ok (), ⟨h, f⟩) := by
    by_cases hz : rtOf h = 0
    · rw [hu hz]; exact condSite_ignore _ _ _
    · have : (rtOf h == 0) = false := by simpa using hz
      rw [this]; rfl
  simp only [h2, M.pure_def]
  cases hs : op.spec with
  | ignore => simp
  | warn =>
    have hne : (Pol.warn != Pol.ignore) = true := by decide
    simp only [hne, ↓reduceIte, M.bind_def]
    rw [validateSpec_warn op Ω vid hs h f, hd]
    simp
  | fail =>
    have hne : (Pol.fail != Pol.ignore) = true := by decide
    simp only [hne, ↓reduceIte, M.bind_def]
    rw [validateSpec_fail' op Ω vid hs h f, hd]
    rfl

/-! ### digests -/

/-- the digest object parseBlock builds for a field: from the declared value, or from the configured default -/
def digestOfField (o : Opts) (h : Fields) (field : Bytes) : Option Digest :=
  if h.has field then newDigest (h.get field) o.defaultEnc else newDigest o.defaultAlg o.defaultEnc

theorem digestFromField_eq (o : Opts) (field : Bytes) (s : St) :
    digestFromField o field s = (match digestOfField o s.hdr field with
      | some d => (.ok d, s)
      | none => (.error .digestAlg, s)) := by
  unfold digestFromField digestOfField
  simp only [M.bind_def, M.hdr_def]
  cases (if s.hdr.has field = true then newDigest (s.hdr.get field) o.defaultEnc else newDigest o.defaultAlg o.defaultEnc) <;> rfl

section
variable (H : Alg → Bytes → Bytes)

/-- when the per-field digest check neither reports nor rewrites -/
def SilentDigest (o : Opts) (d : Digest) (data : Bytes) : Prop :=
  (d.hash = [] ∧ o.addMissingDigest = false) ∨ (d.hash ≠ [] ∧ d.valid H data = true)

theorem checkDigest_silent (o : Opts) (field : Bytes) (tag : Tag) (d : Digest) (data : Bytes) (s : St)
    (h : SilentDigest H o d data) : checkDigest H o field tag d data s = (.ok (), s) := by
  rcases h with ⟨he, ha⟩ | ⟨hne, hv⟩
  · simp [checkDigest, he, ha]
  · exact checkDigest_complete H o field tag d data s hne hv

theorem encChain_ne (l n : Nat) (dflt : Enc) (h : dflt ≠ .unknown) :
    (if l == n * 2 then Enc.b16 else if l == b32EncodedLen n then Enc.b32 else if l == b64EncodedLen n then Enc.b64 else dflt) ≠ .unknown := by
  split
  · simp
  · split
    · simp
    · split
      · simp
      · exact h

theorem detectEncoding_ne_unknown (a hsh : Bytes) (dflt : Enc) (h : dflt ≠ .unknown) : detectEncoding a hsh dflt ≠ .unknown := by
  unfold detectEncoding
  split
  · split <;> simp
  · exact encChain_ne _ _ _ h

theorem newDigest_enc (s : Bytes) (dflt : Enc) (d : Digest) (hd : dflt ≠ .unknown) (h : newDigest s dflt = some d) : d.enc ≠ .unknown := by
  unfold newDigest at h
  cases hs : splitFirst COLON s with
  | none =>
    simp only [hs] at h
    split at h
    · simp only [Option.some.injEq] at h; subst h; exact detectEncoding_ne_unknown _ _ _ hd
    · split at h
      · simp only [Option.some.injEq] at h; subst h; exact detectEncoding_ne_unknown _ _ _ hd
      · cases h
  | some p =>
    obtain ⟨a, hh⟩ := p
    simp only [hs] at h
    split at h
    · simp only [Option.some.injEq] at h; subst h; exact detectEncoding_ne_unknown _ _ _ hd
    · split at h
      · simp only [Option.some.injEq] at h; subst h; exact detectEncoding_ne_unknown _ _ _ hd
      · cases h

/-- a digest field written by the builder from a default digest object is silently accepted by every reader -/
theorem written_digest_silent (o op : Opts) (d0 : Digest) (data : Bytes) (hd0 : newDigest o.defaultAlg o.defaultEnc = some d0)
    (henc : o.defaultEnc ≠ .unknown) (hH : ∀ a x, (H a x).length = a.size) :
    ∃ d', newDigest (d0.format H data) op.defaultEnc = some d' ∧ SilentDigest H op d' data := by
  obtain ⟨d', h1, h2, h3⟩ := C03_format_reparse H d0 (newDigest_name _ _ _ hd0) (newDigest_enc _ _ _ henc hd0) data (hH _ _) op.defaultEnc
  exact ⟨d', h1, Or.inr ⟨h2, h3⟩⟩

theorem digestFromField_ok (o : Opts) (field : Bytes) (s s' : St) (d : Digest) (h : digestFromField o field s = (.ok d, s')) :
    s' = s ∧ digestOfField o s.hdr field = some d := by
  rw [digestFromField_eq] at h
  cases hd : digestOfField o s.hdr field with
  | none => rw [hd] at h; simp at h
  | some d' => rw [hd] at h; simp only [Prod.mk.injEq, Except.ok.injEq] at h; exact ⟨h.2.symm, by rw [h.1]⟩

theorem le_fail (p : Pol) : p.le .fail = true := by cases p <;> rfl

/-- what the strict parse of a warc-fields block implies for every other syntax policy: same fields, no findings -/
theorem parseFields_of_fail (p : Pol) (s : Stream) (fs : Fields) (fnd : List Tag) (s' : Stream)
    (h : parseFields .fail s = .ok fs fnd s') : fnd = [] ∧ parseFields p s = .ok fs [] s' := by
  have hf : fnd = [] := by
    have := parseFields_nofind .fail (by decide) s
    rw [h] at this; exact this
  obtain ⟨fL, h1, h2⟩ := parseFields_le p .fail (le_fail p) s fs fnd s' h
  rw [h2 hf] at h1
  exact ⟨hf, h1⟩

/-- an HTTP block whose head is terminated and accepted by net/http is taken silently under every policy -/
theorem newHttpBlock_clean (o : Opts) (Ω : Oracles) (c : Bytes) (bd pd : Digest) (s : St)
    (hlen : (decide (c.length < 4)) = false) (hfound : (headerBytes c).2.2 = true)
    (hhttp : Ω.http (hasPrefix (bs "HTTP") (headerBytes c).1) (headerBytes c).1 = true) :
    newHttpBlock o Ω c bd pd s =
      (.ok { kind := if hasPrefix (bs "HTTP") (headerBytes c).1 then .httpResp else .httpReq, raw := c,
             headLen := (headerBytes c).1.length, blockDigest := bd, payloadDigest := some pd }, s) := by
  unfold newHttpBlock
  simp only [M.bind_def, hlen, condFail, Bool.false_eq_true, ↓reduceIte, M.pure_def, hfound, Bool.not_true, condSite_false, Bool.false_and,
    M.hdr_def, M.setHdr_def, hhttp, headerBytes_append]

theorem newHttpBlock_strict_ok (o : Opts) (Ω : Oracles) (c : Bytes) (bd pd : Digest) (s s' : St) (b : Block)
    (hsyn : o.syn = .fail) (hblk : o.blk = .fail) (h : newHttpBlock o Ω c bd pd s = (.ok b, s')) :
    (decide (c.length < 4)) = false ∧ (headerBytes c).2.2 = true ∧
    Ω.http (hasPrefix (bs "HTTP") (headerBytes c).1) (headerBytes c).1 = true := by
  unfold newHttpBlock at h
  simp only [M.bind_def, hsyn, hblk, condSite_fail] at h
  by_cases h1 : c.length < 4
  · simp [condFail, h1] at h
  · simp only [condFail, h1, decide_false, Bool.false_eq_true, ↓reduceIte, M.pure_def] at h
    by_cases h2 : (headerBytes c).2.2 = true
    · simp only [h2, Bool.not_true, Bool.false_eq_true, ↓reduceIte, Bool.false_and, M.hdr_def, M.setHdr_def] at h
      by_cases h3 : Ω.http (hasPrefix (bs "HTTP") (headerBytes c).1) (headerBytes c).1 = true
      · exact ⟨by simp [h1], h2, h3⟩
      · simp [h3] at h
    · simp [h2] at h

/-- a warc-fields block whose content the strict header parser accepts is taken silently under every policy -/
theorem newWarcFieldsBlock_clean (o : Opts) (c : Bytes) (bd : Digest) (s : St) (fs : Fields) (fnd : List Tag) (st : Stream)
    (hparse : parseFields .fail ⟨c, false⟩ = .ok fs fnd st) :
    newWarcFieldsBlock o c false bd s =
      (.ok { kind := .warcFields, raw := c, headLen := 0, blockDigest := bd, payloadDigest := none }, s) := by
  obtain ⟨_, hp⟩ := parseFields_of_fail o.syn _ _ _ _ hparse
  obtain ⟨_, hw⟩ := parseFields_of_fail .warn _ _ _ _ hparse
  obtain ⟨_, hi⟩ := parseFields_of_fail .ignore _ _ _ _ hparse
  unfold newWarcFieldsBlock wfFinish
  simp only [M.bind_def, condSite_false, hp, ParseRes.findings, ParseRes.errTag, ParseRes.fieldsOpt, List.isEmpty_nil, Bool.not_true,
    Bool.and_false, Bool.false_eq_true, ↓reduceIte, M.pure_def]
  have hrep : wfReport o.blk [] s = (.ok (), s) := by
    cases o.blk <;> simp [wfReport, wfFindings, condFail]
  simp only [hrep]
  split
  · unfold wfDetectFix; simp only [hw, hi, List.isEmpty_nil, Bool.not_true, Bool.false_eq_true, ↓reduceIte]
  · rfl

theorem newWarcFieldsBlock_strict_ok (o : Opts) (c : Bytes) (bd : Digest) (s s' : St) (b : Block)
    (hsyn : o.syn = .fail) (h : newWarcFieldsBlock o c false bd s = (.ok b, s')) :
    ∃ fs fnd st, parseFields .fail ⟨c, false⟩ = .ok fs fnd st := by
  rw [newWarcFieldsBlock_not_ignore o c false bd (by rw [hsyn]; decide)] at h
  unfold wfFinish at h
  simp only [M.bind_def, condSite_false, hsyn] at h
  cases hp : parseFields .fail ⟨c, false⟩ with
  | ok fs fnd st => exact ⟨fs, fnd, st, rfl⟩
  | err t fnd =>
    rw [hp] at h
    simp only [ParseRes.findings, ParseRes.errTag] at h
    cases hr : wfReport o.blk fnd s with
    | mk r s1 =>
      rw [hr] at h
      cases r <;> simp at h

/-- **the block a strict builder accepted is accepted silently by every reader**: same bytes, same shape -/
theorem parseBlock_reaccept (ob op : Opts) (Ω : Oracles) (rt : Nat) (content : Bytes) (sb sb' : St) (b : Block)
    (hsyn : ob.syn = .fail) (hblk : ob.blk = .fail) (hskip : op.skipParseBlock = ob.skipParseBlock)
    (hrun : parseBlock ob Ω rt content false sb = (.ok b, sb'))
    (hp : Fields) (f : List Tag) (hct : hp.get (bs "Content-Type") = sb.hdr.get (bs "Content-Type"))
    (bd pd : Digest) (hbd : digestOfField op hp (bs "WARC-Block-Digest") = some bd)
    (hpd : digestOfField op hp (bs "WARC-Payload-Digest") = some pd) :
    sb' = sb ∧ b.raw = content ∧
    (∃ bd0 pd0, digestOfField ob sb.hdr (bs "WARC-Block-Digest") = some bd0 ∧ digestOfField ob sb.hdr (bs "WARC-Payload-Digest") = some pd0 ∧
       b.blockDigest = bd0 ∧ (b.payloadDigest = none ∨ b.payloadDigest = some pd0)) ∧
    ∃ b', parseBlock op Ω rt content false ⟨hp, f⟩ = (.ok b', ⟨hp, f⟩) ∧ b'.raw = content ∧ b'.headLen = b.headLen ∧ b'.kind = b.kind ∧
          b'.blockDigest = bd ∧ b'.payloadDigest = b.payloadDigest.map (fun _ => pd) := by
  unfold parseBlock at hrun
  obtain ⟨bd0, s1, h1, hrun⟩ := bind_ok _ _ _ _ _ hrun
  obtain ⟨pd0, s2, h2, hrun⟩ := bind_ok _ _ _ _ _ hrun
  obtain ⟨hd, s3, h3, hrun⟩ := bind_ok _ _ _ _ _ hrun
  obtain ⟨e1, hb0⟩ := digestFromField_ok _ _ _ _ _ h1
  subst e1
  obtain ⟨e2, hp0⟩ := digestFromField_ok _ _ _ _ _ h2
  subst e2
  simp only [M.hdr_def, Prod.mk.injEq, Except.ok.injEq] at h3
  obtain ⟨e3, e4⟩ := h3
  subst e3; subst e4
  -- the reader's run, reduced to the same case distinction
  have hpar : parseBlock op Ω rt content false ⟨hp, f⟩ =
      (if (!ob.skipParseBlock && rt &&& Gen.httpBlockMask != 0 && hasPrefix (bs Gen.c_ApplicationHttp) (lowerKey (s2.hdr.get (bs "Content-Type")))) = true then
         newHttpBlock op Ω content bd pd
       else if (!ob.skipParseBlock && rt == RT_Revisit) = true then
         (if false = true then M.fail .reader
          else pure { kind := .revisit, raw := content, headLen := content.length, blockDigest := bd, payloadDigest := none })
       else if (!ob.skipParseBlock && hasPrefix (bs Gen.c_ApplicationWarcFields) (lowerKey (s2.hdr.get (bs "Content-Type")))) = true then
         newWarcFieldsBlock op content false bd
       else
         pure { kind := .generic, raw := content, headLen := 0, blockDigest := bd,
                payloadDigest := if rt == RT_Resource then some pd else none }) ⟨hp, f⟩ := by
    unfold parseBlock
    simp only [M.bind_def, digestFromField_eq, hbd, hpd, M.hdr_def, hct, hskip]
  rw [hpar]
  dsimp only at hrun
  by_cases c1 : (!ob.skipParseBlock && rt &&& Gen.httpBlockMask != 0 && hasPrefix (bs Gen.c_ApplicationHttp) (lowerKey (s2.hdr.get (bs "Content-Type")))) = true
  · simp only [c1, ↓reduceIte] at hrun ⊢
    obtain ⟨k1, k2, k3⟩ := newHttpBlock_strict_ok ob Ω content bd0 pd0 _ _ _ hsyn hblk hrun
    rw [newHttpBlock_clean ob Ω content bd0 pd0 _ k1 k2 k3] at hrun
    simp only [Prod.mk.injEq, Except.ok.injEq] at hrun
    obtain ⟨e5, e6⟩ := hrun
    subst e5
    refine ⟨e6.symm, rfl, ⟨bd0, pd0, hb0, hp0, rfl, Or.inr rfl⟩, ?_⟩
    exact ⟨_, newHttpBlock_clean op Ω content bd pd _ k1 k2 k3, rfl, rfl, rfl, rfl, rfl⟩
  · simp only [c1, Bool.false_eq_true, ↓reduceIte] at hrun ⊢
    by_cases c2 : (!ob.skipParseBlock && rt == RT_Revisit) = true
    · simp only [c2, ↓reduceIte, Bool.false_eq_true, M.pure_def, Prod.mk.injEq, Except.ok.injEq] at hrun ⊢
      obtain ⟨e5, e6⟩ := hrun
      subst e5
      refine ⟨e6.symm, rfl, ⟨bd0, pd0, hb0, hp0, rfl, Or.inl rfl⟩, ?_⟩
      exact ⟨_, ⟨rfl, trivial⟩, rfl, rfl, rfl, rfl, rfl⟩
    · simp only [c2, Bool.false_eq_true, ↓reduceIte] at hrun ⊢
      by_cases c3 : (!ob.skipParseBlock && hasPrefix (bs Gen.c_ApplicationWarcFields) (lowerKey (s2.hdr.get (bs "Content-Type")))) = true
      · simp only [c3, ↓reduceIte] at hrun ⊢
        obtain ⟨fs, fnd, st, hparse⟩ := newWarcFieldsBlock_strict_ok ob content bd0 _ _ _ hsyn hrun
        rw [newWarcFieldsBlock_clean ob content bd0 _ fs fnd st hparse] at hrun
        simp only [Prod.mk.injEq, Except.ok.injEq] at hrun
        obtain ⟨e5, e6⟩ := hrun
        subst e5
        refine ⟨e6.symm, rfl, ⟨bd0, pd0, hb0, hp0, rfl, Or.inl rfl⟩, ?_⟩
        exact ⟨_, newWarcFieldsBlock_clean op content bd _ fs fnd st hparse, rfl, rfl, rfl, rfl, rfl⟩
      · simp only [c3, Bool.false_eq_true, ↓reduceIte, M.pure_def, Prod.mk.injEq, Except.ok.injEq] at hrun ⊢
        obtain ⟨e5, e6⟩ := hrun
        subst e5
        refine ⟨e6.symm, rfl, ⟨bd0, pd0, hb0, hp0, rfl, ?_⟩, _, ⟨rfl, trivial⟩, rfl, rfl, rfl, rfl, ?_⟩
        · by_cases hr : (rt == RT_Resource) = true <;> simp [hr]
        · by_cases hr : (rt == RT_Resource) = true <;> simp [hr]

/-! ### ValidateDigest: what the strict builder leaves, and when a reader is silent -/

/-- the header the builder ends with when the caller supplied no digest fields: block digest set, payload digest set
    where ValidateDigest looks at one -/
def finalHdr (rt : Nat) (b : Block) (h : Fields) : Fields :=
  if rt == RT_Revisit || (h.set (bs "WARC-Block-Digest") (b.blockDigest.format H b.raw)).has (bs "WARC-Segment-Number") then
    h.set (bs "WARC-Block-Digest") (b.blockDigest.format H b.raw)
  else match b.payloadDigest with
    | some pd => (h.set (bs "WARC-Block-Digest") (b.blockDigest.format H b.raw)).set (bs "WARC-Payload-Digest") (pd.format H b.payload)
    | none => h.set (bs "WARC-Block-Digest") (b.blockDigest.format H b.raw)

theorem validateDigest_strict_fresh (ob : Opts) (rt : Nat) (b : Block) (s s' : St)
    (hspec : ob.spec = .fail) (hadd : ob.addMissingDigest = true)
    (hbe : b.blockDigest.hash = []) (hpe : ∀ pd, b.payloadDigest = some pd → pd.hash = [])
    (hcl : s.hdr.has (bs "Content-Length") = true)
    (h : validateDigest H ob rt b false s = (.ok (), s')) :
    s'.fnd = s.fnd ∧ s.hdr.get (bs "Content-Length") = natToDec b.raw.length ∧ s'.hdr = finalHdr H rt b s.hdr := by
  unfold validateDigest at h
  simp only [M.bind_def, condFail, Bool.false_and, Bool.false_eq_true, ↓reduceIte, M.pure_def, M.hdr_def, hspec, condSite_fail,
    M.setHdr_def] at h
  by_cases hlb : lengthBad ob s.hdr b = true
  · simp [hlb] at h
  · have hlb' : lengthBad ob s.hdr b = false := by simpa using hlb
    simp only [hlb', Bool.false_eq_true, ↓reduceIte, Bool.false_and] at h
    have hlen : s.hdr.get (bs "Content-Length") = natToDec b.raw.length := by
      unfold lengthBad at hlb'
      have hs : (ob.spec != .ignore) = true := by rw [hspec]; decide
      simp only [hs, hcl, Bool.true_and, bne_eq_false_iff_eq] at hlb'
      exact hlb'.symm
    rw [checkDigest_adds H ob _ _ _ _ _ hbe hadd] at h
    simp only at h
    unfold finalHdr
    by_cases hsk : (rt == RT_Revisit || (s.hdr.set (bs "WARC-Block-Digest") (b.blockDigest.format H b.raw)).has (bs "WARC-Segment-Number")) = true
    · simp only [hsk, ↓reduceIte, M.pure_def, Prod.mk.injEq, Except.ok.injEq, true_and] at h ⊢
      subst h; exact ⟨rfl, hlen, rfl⟩
    · simp only [hsk, Bool.false_eq_true, ↓reduceIte] at h ⊢
      cases hpd : b.payloadDigest with
      | none =>
        simp only [hpd, M.pure_def, Prod.mk.injEq, Except.ok.injEq, true_and] at h
        subst h; exact ⟨rfl, hlen, rfl⟩
      | some pd =>
        simp only [hpd] at h
        rw [checkDigest_adds H ob _ _ _ _ _ (hpe pd hpd) hadd] at h
        simp only [Prod.mk.injEq, Except.ok.injEq, true_and] at h
        subst h; exact ⟨rfl, hlen, rfl⟩

theorem validateDigest_silent (op : Opts) (rt : Nat) (b : Block) (hp : Fields) (f : List Tag)
    (hcl : hp.get (bs "Content-Length") = natToDec b.raw.length)
    (hbd : SilentDigest H op b.blockDigest b.raw)
    (hpd : (rt == RT_Revisit || hp.has (bs "WARC-Segment-Number")) = false → ∀ pd, b.payloadDigest = some pd → SilentDigest H op pd b.payload) :
    validateDigest H op rt b false ⟨hp, f⟩ = (.ok (), ⟨hp, f⟩) := by
  unfold validateDigest
  have hlb : lengthBad op hp b = false := by
    unfold lengthBad; rw [hcl]; simp
  simp only [M.bind_def, condFail, Bool.false_and, Bool.false_eq_true, ↓reduceIte, M.pure_def, M.hdr_def, hlb, condSite_false,
    M.setHdr_def, checkDigest_silent H op _ _ _ _ _ hbd]
  by_cases hsk : (rt == RT_Revisit || hp.has (bs "WARC-Segment-Number")) = true
  · simp [hsk]
  · have hsk' : (rt == RT_Revisit || hp.has (bs "WARC-Segment-Number")) = false := by simpa using hsk
    simp only [hsk', Bool.false_eq_true, ↓reduceIte]
    cases hb : b.payloadDigest with
    | none => rfl
    | some pd => exact checkDigest_silent H op _ _ _ _ _ (hpd hsk' pd hb)

theorem parseBlock_needs_digests (o : Opts) (Ω : Oracles) (rt : Nat) (c : Bytes) (fault : Bool) (s s' : St) (b : Block)
    (h : parseBlock o Ω rt c fault s = (.ok b, s')) :
    ∃ bd0 pd0, digestOfField o s.hdr (bs "WARC-Block-Digest") = some bd0 ∧ digestOfField o s.hdr (bs "WARC-Payload-Digest") = some pd0 := by
  unfold parseBlock at h
  obtain ⟨bd0, s1, h1, h⟩ := bind_ok _ _ _ _ _ h
  obtain ⟨pd0, s2, h2, h⟩ := bind_ok _ _ _ _ _ h
  obtain ⟨e1, hb0⟩ := digestFromField_ok _ _ _ _ _ h1
  subst e1
  obtain ⟨e2, hp0⟩ := digestFromField_ok _ _ _ _ _ h2
  exact ⟨bd0, pd0, hb0, hp0⟩

/-- facts about a header after a digest field it did not have was set -/
theorem set_digest_facts (Ω : Oracles) (vid : Nat) (h : Fields) (n v : Bytes)
    (hn : n ∈ [bs "WARC-Block-Digest", bs "WARC-Payload-Digest"]) (habs : h.has n = false) :
    (h.set n v).get (bs "Content-Type") = h.get (bs "Content-Type") ∧
    (h.set n v).get (bs "Content-Length") = h.get (bs "Content-Length") ∧
    (h.set n v).has (bs "WARC-Segment-Number") = h.has (bs "WARC-Segment-Number") ∧
    contentLengthOf (h.set n v) = contentLengthOf h ∧
    typeFieldOf (h.set n v) = typeFieldOf h ∧ rtOf (h.set n v) = rtOf h ∧
    (specDefects Ω vid h = [] → specDefects Ω vid (h.set n v) = []) ∧
    (h.set n v).has n = true ∧ (h.set n v).get n = v := by
  obtain ⟨a, b, c, d, e, f⟩ := digest_field_facts Ω vid v n hn
  have hseg : ∀ m ∈ [bs "WARC-Block-Digest", bs "WARC-Payload-Digest"], (canon m == canon (bs "WARC-Segment-Number")) = false := by decide
  refine ⟨?_, ?_, ?_, ?_, ?_, ?_, fun hd => specDefects_set_digest Ω vid h n v hn habs hd, has_set_same h n v, get_set_same h n v⟩
  · rw [set_absent h n v habs]; exact get_append_other h _ v _ d
  · rw [set_absent h n v habs]; exact get_append_other h _ v _ c
  · rw [set_absent h n v habs]; exact has_append_other h _ v _ (hseg n hn)
  · rw [set_absent h n v habs]; exact contentLengthOf_append h _ v c
  · rw [set_absent h n v habs]; exact typeFieldOf_append h _ v b
  · rw [set_absent h n v habs]; exact rtOf_append h _ v b

theorem has_setId_other (h : Fields) (n m v : Bytes) (hne : canon m ≠ canon n) : (h.setId n v).has m = h.has m := by
  unfold Fields.setId
  cases Fields.idValue v with
  | none => rfl
  | some w => exact has_set_other h n m w hne


end
end Gowarc
