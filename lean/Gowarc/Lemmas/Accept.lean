/-
  Lemmas for the validation side of the round trip (C01): a header set without spec defects stays without defects when
  the builder appends a digest field; validateHeader is silent on such a set under every policy.
-/
import Gowarc.Props.C17
import Gowarc.Props.C02e2e
import Gowarc.Props.C03detect
namespace Gowarc
open Gowarc.Props.C17 Gowarc.Props.C20 Gowarc.Props.C03 Fields

/-! ### Set on an absent name appends -/

theorem setLoop_absent (k v : Bytes) (fs : Fields) (h : fs.any (fun p => p.1 == k) = false) :
    setLoop k v fs false = (fs, false) := by
  induction fs with
  | nil => rfl
  | cons a t ih =>
    obtain ⟨n, w⟩ := a
    simp only [List.any_cons, Bool.or_eq_false_iff] at h
    have hn : (n != k) = true := by simp only [bne, h.1]; rfl
    simp only [setLoop, hn, ↓reduceIte, ih h.2]

theorem set_absent (fs : Fields) (n v : Bytes) (h : fs.has n = false) : fs.set n v = fs ++ [(canon n, v)] := by
  unfold Fields.set
  unfold Fields.has at h
  rw [setLoop_absent (canon n) v fs h]
  simp

theorem get_append_other (fs : Fields) (k v key : Bytes) (hk : (k == canon key) = false) :
    Fields.get (fs ++ [(k, v)]) key = Fields.get fs key := by
  unfold Fields.get
  rw [List.find?_append]
  cases hf : fs.find? (fun nv => nv.1 == canon key) with
  | some x => simp
  | none => simp [List.find?, hk]

theorem has_append_other (fs : Fields) (k v key : Bytes) (hk : (k == canon key) = false) :
    Fields.has (fs ++ [(k, v)]) key = Fields.has fs key := by
  unfold Fields.has
  simp [List.any_append, hk]

theorem has_append_mono (fs : Fields) (k v key : Bytes) (h : Fields.has fs key = true) :
    Fields.has (fs ++ [(k, v)]) key = true := by
  unfold Fields.has at h ⊢
  simp only [List.any_append, h, Bool.true_or]

theorem getAll_append (fs : Fields) (k v key : Bytes) :
    Fields.getAll (fs ++ [(k, v)]) key = Fields.getAll fs key ++ (if k == canon key then [v] else []) := by
  unfold Fields.getAll
  rw [List.filter_append, List.map_append]
  congr 1
  by_cases hk : (k == canon key) = true <;> simp [List.filter, hk]

theorem typeFieldOf_append (h : Fields) (k v : Bytes) (hwt : (lowerKey k == bs "warc-type") = false) :
    typeFieldOf (h ++ [(k, v)]) = typeFieldOf h := by
  unfold typeFieldOf
  rw [List.find?_append]
  cases hf : h.find? (fun nv => lowerKey nv.1 == bs "warc-type") with
  | some x => simp
  | none => simp [List.find?, hwt]

theorem rtOf_append (h : Fields) (k v : Bytes) (hwt : (lowerKey k == bs "warc-type") = false) :
    rtOf (h ++ [(k, v)]) = rtOf h := by
  unfold rtOf; rw [typeFieldOf_append h k v hwt]

theorem contentLengthOf_append (h : Fields) (k v : Bytes) (hcl : (k == canon (bs "Content-Length")) = false) :
    contentLengthOf (h ++ [(k, v)]) = contentLengthOf h := by
  unfold contentLengthOf
  rw [has_append_other h k v _ hcl, get_append_other h k v _ hcl]

/-- record types are 0 (unknown) or one of the eight bits -/
theorem recTypeOfName_range (lc : Bytes) : recTypeOfName lc = 0 ∨ recTypeOfName lc &&& 255 ≠ 0 := by
  unfold recTypeOfName
  cases hf : Gen.stringToRecordType.find? (fun p => bs p.1 == lc) with
  | none => left; rfl
  | some p =>
    right
    have hm := List.mem_of_find?_eq_some hf
    have : ∀ q ∈ Gen.stringToRecordType, q.2 &&& 255 ≠ 0 := by decide
    exact this p hm

theorem rtOf_range (h : Fields) : rtOf h = 0 ∨ rtOf h &&& 255 ≠ 0 := recTypeOfName_range _

/-! ### a header set without defects stays without defects when a harmless fresh field is appended -/

theorem specDefects_nil_iff (Ω : Oracles) (ver : Nat) (h : Fields) :
    specDefects Ω ver h = [] ↔
      ((∀ nv ∈ h, fieldBad Ω ver (rtOf h) (defOf nv.1) nv.2 = false ∧
                  (!(defOf nv.1).repeatable && decide ((h.getAll nv.1).length > 1)) = false) ∧
       (∀ f ∈ Gen.requiredFields, h.has (bs f) = true) ∧ ctRule h (rtOf h) = false ∧ concRule h (rtOf h) = false) := by
  unfold specDefects
  simp only [List.append_eq_nil_iff, List.flatMap_eq_nil_iff, List.map_eq_nil_iff, List.filter_eq_nil_iff, fieldTags]
  constructor
  · rintro ⟨⟨⟨h1, h2⟩, h3⟩, h4⟩
    refine ⟨fun nv hnv => ?_, fun f hf => ?_, ?_, ?_⟩
    · have := h1 nv hnv
      constructor
      · by_cases hb : fieldBad Ω ver (rtOf h) (defOf nv.1) nv.2 = true
        · simp [hb] at this
        · simpa using hb
      · by_cases hb : (!(defOf nv.1).repeatable && decide ((h.getAll nv.1).length > 1)) = true
        · simp [hb] at this
        · simpa using hb
    · have := h2 f hf; simpa using this
    · by_cases hb : ctRule h (rtOf h) = true
      · simp [hb] at h3
      · simpa using hb
    · by_cases hb : concRule h (rtOf h) = true
      · simp [hb] at h4
      · simpa using hb
  · rintro ⟨h1, h2, h3, h4⟩
    refine ⟨⟨⟨fun nv hnv => ?_, fun f hf => ?_⟩, ?_⟩, ?_⟩
    · obtain ⟨a, b⟩ := h1 nv hnv; simp [a, b]
    · simp [h2 f hf]
    · simp [h3]
    · simp [h4]

theorem specDefects_add (Ω : Oracles) (ver : Nat) (h : Fields) (k v : Bytes)
    (hfresh : h.any (fun nv => nv.1 == k) = false) (hcanon : canon k = k)
    (hwt : (lowerKey k == bs "warc-type") = false)
    (hcl : (k == canon (bs "Content-Length")) = false) (hct : (k == canon (bs "Content-Type")) = false)
    (hcc : (k == canon (bs "WARC-Concurrent-To")) = false)
    (hgood : ∀ rt, (rt = 0 ∨ rt &&& 255 ≠ 0) → fieldBad Ω ver rt (defOf k) v = false)
    (hd : specDefects Ω ver h = []) : specDefects Ω ver (h ++ [(k, v)]) = [] := by
  rw [specDefects_nil_iff] at hd ⊢
  obtain ⟨h1, h2, h3, h4⟩ := hd
  rw [rtOf_append h k v hwt]
  refine ⟨fun nv hnv => ?_, fun f hf => has_append_mono h k v _ (h2 f hf), ?_, ?_⟩
  · rw [getAll_append]
    rcases List.mem_append.mp hnv with hm | hm
    · obtain ⟨a, b⟩ := h1 nv hm
      refine ⟨a, ?_⟩
      by_cases hk : (k == canon nv.1) = true
      · -- no entry of h is named k = canon nv.1
        have hnone : h.getAll nv.1 = [] := by
          unfold Fields.getAll
          rw [List.map_eq_nil_iff, List.filter_eq_nil_iff]
          intro x hx hx1
          have hkx : k = canon nv.1 := by simpa using hk
          have : (x.1 == k) = true := by rw [hkx]; exact hx1
          have hany : h.any (fun nv => nv.1 == k) = true := List.any_eq_true.mpr ⟨x, hx, this⟩
          rw [hfresh] at hany; cases hany
        simp [hnone, hk]
      · have hk' : (k == canon nv.1) = false := by simpa using hk
        simp only [hk', Bool.false_eq_true, ↓reduceIte, List.append_nil]
        exact b
    · simp only [List.mem_singleton] at hm
      subst hm
      simp only
      refine ⟨hgood _ (rtOf_range h), ?_⟩
      have hnone : h.getAll k = [] := by
        unfold Fields.getAll
        rw [List.map_eq_nil_iff, List.filter_eq_nil_iff]
        intro x hx hx1
        rw [hcanon] at hx1
        have hany : h.any (fun nv => nv.1 == k) = true := List.any_eq_true.mpr ⟨x, hx, hx1⟩
        rw [hfresh] at hany; cases hany
      simp [hnone, hcanon]
  · unfold ctRule at h3 ⊢
    rw [contentLengthOf_append h k v hcl, has_append_other h k v _ hct]; exact h3
  · unfold concRule at h4 ⊢
    rw [has_append_other h k v _ hcc]; exact h4

/-- the two digest fields are harmless: legal on every record type, no value check -/
theorem digest_field_facts (Ω : Oracles) (ver : Nat) (v : Bytes) :
    ∀ n ∈ [bs "WARC-Block-Digest", bs "WARC-Payload-Digest"],
      canon (canon n) = canon n ∧ (lowerKey (canon n) == bs "warc-type") = false ∧
      (canon n == canon (bs "Content-Length")) = false ∧ (canon n == canon (bs "Content-Type")) = false ∧
      (canon n == canon (bs "WARC-Concurrent-To")) = false ∧
      (∀ rt, (rt = 0 ∨ rt &&& 255 ≠ 0) → fieldBad Ω ver rt (defOf (canon n)) v = false) := by
  intro n hn
  have hdef : ∀ m ∈ [bs "WARC-Block-Digest", bs "WARC-Payload-Digest"],
      (validatorOf (defOf (canon m))) = (true, "none") ∧ (defOf (canon m)).recMask = 255 := by decide
  have hrest : ∀ m ∈ [bs "WARC-Block-Digest", bs "WARC-Payload-Digest"],
      canon (canon m) = canon m ∧ (lowerKey (canon m) == bs "warc-type") = false ∧
      (canon m == canon (bs "Content-Length")) = false ∧ (canon m == canon (bs "Content-Type")) = false ∧
      (canon m == canon (bs "WARC-Concurrent-To")) = false := by decide
  obtain ⟨a, b, c, d, e⟩ := hrest n hn
  refine ⟨a, b, c, d, e, ?_⟩
  intro rt hrt
  obtain ⟨hv, hm⟩ := hdef n hn
  unfold fieldBad
  rw [hv, hm]
  simp only [Bool.not_true, Bool.false_eq_true, ↓reduceIte, valueOk]
  by_cases h1 : (ver &&& (defOf (canon n)).specMask == 0) = true
  · simp [h1]
  · simp only [h1, Bool.false_eq_true, ↓reduceIte]
    rcases hrt with h0 | h0
    · simp [h0]
    · have : (rt == 0) = false := by
        cases hz : (rt == 0) with
        | false => rfl
        | true => exact absurd (by have : rt = 0 := by simpa using hz
                                   subst this; simp) h0
      simp [this, h0]

/-- setting a digest field that the header does not have keeps the header free of defects -/
theorem specDefects_set_digest (Ω : Oracles) (ver : Nat) (h : Fields) (n v : Bytes)
    (hn : n ∈ [bs "WARC-Block-Digest", bs "WARC-Payload-Digest"]) (habs : h.has n = false)
    (hd : specDefects Ω ver h = []) : specDefects Ω ver (h.set n v) = [] := by
  rw [set_absent h n v habs]
  obtain ⟨a, b, c, d, e, f⟩ := digest_field_facts Ω ver v n hn
  exact specDefects_add Ω ver h (canon n) v (by unfold Fields.has at habs; exact habs) a b c d e f hd

end Gowarc
