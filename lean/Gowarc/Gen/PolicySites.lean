-- GENERATED (stub)
namespace Gowarc.Gen
end Gowarc.Gen
