import Gowarc.Driver.Util
import Gowarc.Model.Crash
namespace Gowarc.Driver
open Gowarc

def parseWFile (s : String) : Option WFile :=
  match s.splitOn ":" with
  | [id, opn, ms] =>
    let members := (if ms.isEmpty then [] else ms.splitOn ",").filterMap (fun m =>
      match m.splitOn "+" with
      | [tok, len] => some (⟨parseNat tok, List.replicate (parseNat len) 0, none⟩ : Member)
      | _ => none)
    some ⟨parseNat id, members, parseBool opn⟩
  | _ => none

/-- print the log with consecutive byte effects merged -/
def showLog : List Eff → Nat → Nat → List String → List String
  | [], _, pend, acc => (if pend > 0 then s!"W?:{pend}" :: acc else acc).reverse
  | e :: rest, cur, pend, acc =>
    match e with
    | .byte _ => showLog rest cur (pend + 1) acc
    | _ =>
      let acc1 := if pend > 0 then s!"W{cur}:{pend}" :: acc else acc
      match e with
      | .create f => showLog rest f 0 (s!"C{f}" :: acc1)
      | .sync => showLog rest cur 0 (s!"S{cur}" :: acc1)
      | .ack tok off _ => showLog rest cur 0 (s!"A{tok}@{off}" :: acc1)
      | .close => showLog rest cur 0 (s!"X{cur}" :: acc1)
      | .rename => showLog rest cur 0 (s!"R{cur}" :: acc1)
      | .byte _ => showLog rest cur 0 acc1

/-- crash <cfg> <ops> <kills> <files> -/
def handleCrash (args : List String) : String :=
  match args with
  | [cfg, _, _, fdesc] =>
    let kv := parseKV cfg
    let flush := parseBool (kvGet kv "flush" "f")
    match (if fdesc.isEmpty || fdesc == "-" then [] else fdesc.splitOn "|").mapM parseWFile with
    | none => "bad-files"
    | some files => joinWith ";" (showLog (effectLog flush files) 0 0 [])
  | _ => "bad-args"

end Gowarc.Driver
