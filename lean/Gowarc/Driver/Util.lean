import Gowarc.Model.Basic
namespace Gowarc.Driver

def hx (s : String) : Bytes := (fromHex s).getD [0xBA, 0xD0]   -- protocol error marker; harness never sends bad hex

def joinWith (sep : String) (l : List String) : String := sep.intercalate l

def parseNat (s : String) : Nat := s.toNat?.getD 0
def parseInt (s : String) : Int := s.toInt?.getD 0
def parseBool (s : String) : Bool := s == "t" || s == "1" || s == "true"
def showBool (b : Bool) : String := if b then "t" else "f"

/-- split "k=v;k=v" into pairs -/
def parseKV (s : String) : List (String × String) :=
  (s.splitOn ";").filterMap (fun kv => match kv.splitOn "=" with
    | [k, v] => some (k, v)
    | _ => none)

def kvGet (kv : List (String × String)) (k : String) (d : String := "") : String :=
  match kv.find? (·.1 == k) with
  | some p => p.2
  | none => d

end Gowarc.Driver
