import Gowarc.Driver.Util
import Gowarc.Model.Resources
namespace Gowarc.Driver
open Gowarc

/-- the harness reports what each API call returned; the model decides what that means for files and descriptors -/
def parseROps (op : String) : List ROp :=
  match op.splitOn ":" with
  | ["nb", mem, pre] => [.newBuilder (parseNat mem)] ++ (if parseNat pre > 0 then [] else [])
  | ["w", h, n] => [.write (parseNat h) (parseNat n)]
  | ["b", h] => [.build (parseNat h)]
  | ["um", mem, n] => [.unmarshal (some (parseNat mem, parseNat n))]
  | ["um0"] => [.unmarshal none]
  | ["dv"] => [.derive]
  | ["mg", a, b, c] => [.merge (parseNat a) (parseNat b) (parseBool c)]
  | ["rd"] => [.openReader]
  | ["c", h] => [.close (parseNat h)]
  | _ => []

/-- res <ops> <observed> -/
def handleRes (args : List String) : String :=
  match args with
  | [_, obs] =>
    let (st, outs) := (obs.splitOn ";").foldl (fun (acc : RState × List String) o =>
      -- a new builder that already wrote its protocol header
      let ops := parseROps o
      let s1 := ops.foldl RState.step acc.1
      let s2 := match o.splitOn ":" with
        | ["nb", _, pre] => if parseNat pre > 0 then s1.step (.write (s1.handles.length - 1) (parseNat pre)) else s1
        | _ => s1
      (s2, s!"{s2.files}/{s2.fds}" :: acc.2)) (RState.init, [])
    let fin := st.closeAll
    joinWith ";" (outs.reverse ++ [s!"{fin.files}/{fin.fds}"])
  | _ => "bad-args"

end Gowarc.Driver
