import Gowarc.Driver.Util
import Gowarc.Model.Digest
namespace Gowarc.Driver
open Gowarc

def algOfStr (s : String) : Alg :=
  match s with | "md5" => .md5 | "sha1" => .sha1 | "sha256" => .sha256 | _ => .sha512

def encStr : Enc → String | .unknown => "0" | .b16 => "1" | .b32 => "2" | .b64 => "3"

def optHex : Option Bytes → String | none => "err" | some b => toHex b

def handleHash (args : List String) : String :=
  match args with
  | [a, d] => toHex (realH (algOfStr a) (hx d))
  | _ => "bad-args"

def handleEnc (args : List String) : String :=
  match args with
  | [e, d] => toHex ((Enc.ofCode (parseNat e)).encode (hx d))
  | _ => "bad-args"

def handleDec (args : List String) : String :=
  match args with
  | [e, d] => optHex ((Enc.ofCode (parseNat e)).decode (hx d))
  | _ => "bad-args"

/-- digest <default-enc> <field value hex> <data hex>  →  name enc hash valid format -/
def handleDigest (args : List String) : String :=
  match args with
  | [e, v, d] =>
    match newDigest (hx v) (Enc.ofCode (parseNat e)) with
    | none => "unsupported"
    | some dg => s!"{toHex dg.name} {encStr dg.enc} {toHex dg.hash} {showBool (dg.valid realH (hx d))} {toHex (dg.format realH (hx d))}"
  | _ => "bad-args"

end Gowarc.Driver
