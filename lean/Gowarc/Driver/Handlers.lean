import Gowarc.Driver.FieldsH
import Gowarc.Driver.BufH
namespace Gowarc.Driver

def handleLine (line : String) : String :=
  match line.splitOn " " with
  | id :: kind :: args =>
    let out := match kind with
      | "fields" => handleFields args
      | "canon" => handleCanon args
      | "buf" => handleBuf args
      | _ => "unknown-kind"
    id ++ " " ++ out
  | _ => "? bad-line"

end Gowarc.Driver
