import Gowarc.Driver.FieldsH
import Gowarc.Driver.BufH
import Gowarc.Driver.DigestH
import Gowarc.Driver.ParseH
namespace Gowarc.Driver

def handleLine (line : String) : String :=
  match line.splitOn " " with
  | id :: kind :: args =>
    let out := match kind with
      | "fields" => handleFields args
      | "canon" => handleCanon args
      | "buf" => handleBuf args
      | "hash" => handleHash args
      | "enc" => handleEnc args
      | "dec" => handleDec args
      | "digest" => handleDigest args
      | "dechdr" => handleDecHdr args
      | "hdrparse" => handleHdrParse args
      | "apiparse" => handleApiParse args
      | _ => "unknown-kind"
    id ++ " " ++ out
  | _ => "? bad-line"

end Gowarc.Driver
