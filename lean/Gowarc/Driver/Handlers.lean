import Gowarc.Driver.FieldsH
import Gowarc.Driver.BufH
import Gowarc.Driver.DigestH
import Gowarc.Driver.ParseH
import Gowarc.Driver.RecordH
import Gowarc.Driver.BlockH
import Gowarc.Driver.RevisitH
import Gowarc.Driver.WriterH
import Gowarc.Driver.NameH
import Gowarc.Model.RecordId
import Gowarc.Driver.CutsH
import Gowarc.Driver.ResH
import Gowarc.Driver.CrashH
namespace Gowarc.Driver

def handleLine (line : String) : String :=
  match line.splitOn " " with
  | id :: kind :: args =>
    let out := match kind with
      | "fields" => handleFields args
      | "canon" => handleCanon args
      | "buf" => handleBuf args
      | "hash" => handleHash args
      | "enc" => handleEnc args
      | "dec" => handleDec args
      | "digest" => handleDigest args
      | "dechdr" => handleDecHdr args
      | "hdrparse" => handleHdrParse args
      | "apiparse" => handleApiParse args
      | "wfault" => handleWfault args
      | "unmarshal" => handleUnmarshal args
      | "build" => handleBuild args
      | "roundtrip" => handleRoundtrip args
      | "valhdr" => handleValHdr args
      | "xpol" => handleXpol args
      | "block" => handleBlock args
      | "revisit" => handleRevisit args
      | "xpolb" => handleXpolBuild args
      | "unmpair" => "impl-only" -- one Unmarshaler, two records: no state between calls in the model by construction
      | "xpolf" => "impl-only"   -- transient reader faults: judged on the implementation alone
      | "writer" => handleWriter args
      | "namegen" => handleNamegen args
      | "uuid" => (match args with
        | [r] => joinWith "|" ((RecordId.draws (hx r)).map (fun d => match RecordId.recordIdField d with | some v => toHex v | none => "err"))
        | _ => "bad-args")
      | "uuidconc" => "impl-only" -- C02_id_injective: distinct draws give distinct ids; the repeat oracle judges the draws
      | "cuts" => handleCuts args
      | "stream" => handleCuts args
      | "res" => handleRes args
      | "crash" => handleCrash args
      | "race" => "races=-"   -- C11_table: every shared location of the supported use is disciplined
      | "conc" =>
        -- what C10_all_return / C10_after_close say of every schedule: every call of every program returns, nothing stays open
        match args with
        | _ :: progs :: _ =>
          let n := ((progs.splitOn "/").map (fun p => ((p.splitOn ",").filter (fun o => !o.isEmpty && !o.startsWith "S")).length)).foldl (· + ·) 0
          s!"returned={n}/{n} open=0"
        | _ => "bad-args"
      | _ => "unknown-kind"
    id ++ " " ++ out
  | _ => "? bad-line"

end Gowarc.Driver
