import Gowarc.Driver.Util
import Gowarc.Model.Buffer
import Gowarc.Gen.Defaults
namespace Gowarc.Driver
open Gowarc

structure BufSt where
  b : Buf
  s : Slice
  faulted : Bool := false

def showRd (r : Bytes × Bool) : String := toHex r.1 ++ "," ++ showBool r.2

def bufOp (st : BufSt) (op : String) : BufSt × String :=
  let b := st.b
  let s := st.s
  match op.splitOn ":" with
  | ["w", d] =>
    if b.writeFaults then ({ st with faulted := true }, "panic")
    else ({ st with b := b.write (hx d) }, toString (hx d).length)
  | ["rf", d, _, e] =>
    if b.writeFaults && (hx d).length > 0 then ({ st with faulted := true }, "panic")
    else ({ st with b := b.readFrom (hx d) }, toString (hx d).length ++ "," ++ e)
  | ["r", n] => let r := b.read (parseNat n); ({ st with b := r.2 }, showRd r.1)
  | ["pk", n] => (st, showRd (b.peek (parseNat n)))
  | ["rb", d] => let r := b.readBytes (UInt8.ofNat (parseNat d)); ({ st with b := r.2 }, showRd r.1)
  | ["seek0"] => ({ st with b := b.seekStart }, ".")
  | ["size"] => (st, toString b.size)
  | ["sl", o, l] => ({ st with s := { soff := parseNat o, len := (if parseNat l == 0 then none else some (parseNat l)), pos := 0 } }, ".")
  | ["sr", n] => let r := s.read b (parseNat n); ({ st with s := r.2 }, showRd r.1)
  | ["spk", n] => (st, showRd (s.peek b (parseNat n)))
  | ["srb", d] => let r := s.readBytes b (UInt8.ofNat (parseNat d)); ({ st with s := r.2 }, showRd r.1)
  | ["sseek0"] => ({ st with s := s.seekStart }, ".")
  | ["ssize"] => (st, toString (s.size b))
  | _ => (st, "bad-op")

def handleBuf (args : List String) : String :=
  match args with
  | [cfg, ops] =>
    let kv := parseKV cfg
    let st0 : BufSt := { b := Buf.new (if parseNat (kvGet kv "max" "0") == 0 then Gen.b_maxMemBytes else parseNat (kvGet kv "max" "0")), s := { soff := 0, len := none, pos := 0 } }
    let (_, outs) := (ops.splitOn ";").foldl (fun (acc : BufSt × List String) op =>
      if acc.1.faulted then acc else
      let (st', out) := bufOp acc.1 op
      (st', (out ++ "|" ++ (if st'.b.file.isSome then "f" else "m")) :: acc.2)) (st0, [])
    joinWith ";" outs.reverse
  | _ => "bad-args"

end Gowarc.Driver
