import Gowarc.Driver.RecordH
import Gowarc.Model.Revisit
namespace Gowarc.Driver
open Gowarc

def revErrStr : RevErr → String
  | .needPayloadDigest => "needPayloadDigest" | .unknownProfile => "unknownProfile" | .notRevisit => "notRevisit"
  | .segmented => "segmented" | .badLength => "badLength" | .notHttp => "notHttp" | .httpParse => "httpParse"
  | .unsupportedBlock => "unsupportedBlock" | .refOfRevisit => "refOfRevisit"

def showRRec (r : RRec) : String := s!"rt={r.rt} hdr={showFields r.hdr} block={toHex r.raw}"

/-- revisit <opts> <ver> <rt0> <hdr> <content> <id> <oracles> <profile> <refid> <refuri> <refdate>
    builds the original, derives the revisit, merges it back -/
def handleRevisit (args : List String) : String :=
  match args with
  | o :: ver :: rt0 :: hdr :: content :: id :: orc :: prof :: rid :: ruri :: rdate :: _ =>
    let verId := if ver == "1.0" then 1 else 2
    let opts := parseOpts o
    let b := build realH opts (parseOracles orc) ver.toUTF8.toList verId (parseNat rt0)
      (builderHeader (parseNat rt0) (parseFieldsArg hdr)) (hx content) (hx id)
    match b.err, b.record with
    | some t, _ => s!"berr={tagStr t}"
    | none, none => "no-record"
    | none, some r =>
      let isHttp := r.block.kind == .httpReq || r.block.kind == .httpResp
      let head := r.block.raw.take r.block.headLen
      let payload := r.block.raw.drop r.block.headLen
      let pdStr := match r.block.payloadDigest with
        | some pd => pd.format realH payload
        | none => []
      let orig : RRec := { rt := r.rt, hdr := r.hdr, isHttp := isHttp, revisitable := isHttp || r.block.kind == .generic, head := if isHttp then head else [], payload := if isHttp then payload else r.block.raw,
                           payloadDigest := pdStr, cached := true, blockDigestStr := r.block.blockDigest.format realH r.block.raw }
      let refE : Except RevErr RevisitRef := if hx prof == bs "auto11" then createRevisitRef orig profileIPD11
        else .ok ⟨hx prof, hx rid, hx ruri, hx rdate⟩
      match refE with
      | .error _ => s!"orig={kindStr r.block.kind} referr"
      | .ok ref =>
      match toRevisit realH opts orig ref with
      | .error e => s!"orig={kindStr r.block.kind} reverr={revErrStr e}"
      | .ok rev =>
        let m := match merge (parseOracles orc) opts.syn (r.block.kind == .httpResp) rev orig with
          | .error e => s!"mergeerr={revErrStr e}"
          | .ok mr => s!"merged {showRRec mr}"
        s!"orig={kindStr r.block.kind} revisit {showRRec rev} {m}"
  | _ => "bad-args"

end Gowarc.Driver
