import Gowarc.Driver.Util
import Gowarc.Model.Writer
namespace Gowarc.Driver
open Gowarc

def showOptNat : Option Nat → String
  | none => "-"
  | some n => toString n

def parseDecl (s : String) : Decl :=
  if s == "e" then .empty else if s == "b" then .bad else .val (parseInt s)

def parseWOp (op : String) : Option SW.WOp :=
  match op.splitOn ":" with
  | ["R"] => some .rotate
  | ["W", tok, decl, len, ulen, infoLen] =>
    some (.write { tok := parseNat tok, decl := parseDecl decl, enc := fun _ => List.replicate (parseNat len) 0,
                   ulen := fun _ => parseNat ulen, infoBytes := fun _ => List.replicate (parseNat infoLen) 0 })
  | ["F", tok, decl, infoLen] =>
    some (.failed { tok := parseNat tok, decl := parseDecl decl, enc := fun _ => [], ulen := fun _ => 0,
                    infoBytes := fun _ => List.replicate (parseNat infoLen) 0 })
  | ["S", tok, decl, len, ulen, infoLen, tok2, decl2, len2, ulen2, infoLen2] =>
    some (.seg { tok := parseNat tok, decl := parseDecl decl, enc := fun _ => List.replicate (parseNat len) 0,
                 ulen := fun _ => parseNat ulen, infoBytes := fun _ => List.replicate (parseNat infoLen) 0 }
               { tok := parseNat tok2, decl := parseDecl decl2, enc := fun _ => List.replicate (parseNat len2) 0,
                 ulen := fun _ => parseNat ulen2, infoBytes := fun _ => List.replicate (parseNat infoLen2) 0 })
  | _ => none

def showResp : Option WResp → String
  | none => "R"
  | some r => if r.err then "err" else s!"{showOptNat r.file}@{r.off}+{r.written}"

def showMember (m : Member) : String := s!"{m.tok}+{m.bytes.length}^{showOptNat m.stamp}"

def showFile (f : WFile) : String :=
  s!"{f.id},{if f.isOpen then "o" else "f"},{f.size},{joinWith "|" (f.members.map showMember)}"

def showCb (c : Callback) : String := s!"{c.file},{c.size},{showOptNat c.infoOf}"

/-- writer <cfg> <ops> -/
def handleWriter (args : List String) : String :=
  match args with
  | [cfg, _, ops] =>
    let kv := parseKV cfg
    let c : WCfg := { max := parseInt (kvGet kv "max" "0"), compress := parseBool (kvGet kv "comp" "f"), info := parseBool (kvGet kv "info" "f") }
    let rnum := parseInt (kvGet kv "rnum" "1")
    let rden := parseInt (kvGet kv "rden" "1")
    let scale : Int → Int := fun n => Int.tdiv (n * rnum) rden
    match (ops.splitOn ";").mapM parseWOp with
    | none => "bad-op"
    | some opl =>
      let r := SW.run c scale SW.init opl
      s!"{joinWith ";" (r.2.map showResp)} files={joinWith ";" (r.1.files.map showFile)} cb={joinWith ";" (r.1.callbacks.map showCb)}"
  | _ => "bad-args"

end Gowarc.Driver
