import Gowarc.Driver.RecordH
import Gowarc.Model.Reader
namespace Gowarc.Driver
open Gowarc

def cksum (b : Bytes) : Nat := b.foldl (fun a x => (a * 31 + x.toNat) % 1000003) 7

def hdrSum (h : Fields) : Nat := cksum (h.flatMap (fun nv => nv.1 ++ [58] ++ nv.2 ++ [10]))

def showNext (n : NextRes) : String :=
  match n.err, n.record with
  | some t, _ => s!"e{n.offset},{tagStr t},{showTags n.fnd}"
  | none, some r => s!"o{n.offset},{r.rt},{hdrSum r.hdr},{r.block.raw.length},{cksum r.block.raw},{showTags n.fnd}"
  | none, none => s!"n{n.offset}"

/-- gz table per cut: zc:<cut>:<pos>:<status>:<consumed>:<ulen>, content = first ulen bytes of the full member content z:<pos> -/
def cutOracles (base : Oracles) (raw : List (List String)) (full : List (Nat × Bytes)) (cut : Nat) : Oracles :=
  let gzs : List (Nat × Sum Tag (Bytes × Bool × Nat)) := raw.filterMap (fun e =>
    match e with
    | ["zc", c, pos, st, consumed, ulen] =>
      if parseNat c != cut then none
      else
        let content := match full.find? (fun p => p.1 == parseNat pos) with
          | some p => p.2.take (parseNat ulen)
          | none => []
        some (parseNat pos, if st == "ok" then .inr (content, false, parseNat consumed)
          else if st == "bad" then .inr (content, true, parseNat consumed)
          else if st == "eof" then .inl .eof
          else if st == "reader" then .inl .reader
          else .inl .other)
    | _ => none)
  { base with gz := fun b => (gzs.find? (fun e => e.1 == cut - b.length)).map (·.2) }

/-- cuts <opts> <file> <from> <to> <oracles>: read every prefix of the file with from ≤ length ≤ to -/
def handleCuts (args : List String) : String :=
  match args with
  | o :: d :: from_ :: to_ :: orc :: bnds :: _ =>
    let opts := parseOpts o
    let data := hx d
    let base := parseOracles orc
    let raw : List (List String) := if orc == "-" then [] else (orc.splitOn ",").map (fun e => e.splitOn ":")
    let full : List (Nat × Bytes) := raw.filterMap (fun e =>
      match e with
      | ["z", off, _, _, content] => some (parseNat off, hx content)
      | _ => none)
    let lo := parseNat from_
    let hi := parseNat to_
    let outs := (List.range (hi + 1 - lo)).map (fun i =>
      let k := lo + i
      let Ω := cutOracles base raw full k
      joinWith ";" ((readAllRecs realH opts Ω (data.take k)).map showNext))
    -- is the uncut file an input of the property: n clean records at the given boundaries, then EOF at the end
    let bounds := (bnds.splitOn ",").map parseNat
    let fullItems := readAllRecs realH opts (cutOracles base raw full data.length) data
    let nrec := bounds.length - 1
    let wf := fullItems.length == nrec + 1 &&
      (fullItems.zip bounds).all (fun (it, b) =>
        match it.err with
        | some t => t == .eof && b == data.length && it.offset == b
        | none => it.fnd.isEmpty && it.offset == b)
    s!"wf={showBool wf} " ++ joinWith "|" outs
  | _ => "bad-args"

end Gowarc.Driver
