import Gowarc.Driver.Util
import Gowarc.Model.Fields
namespace Gowarc.Driver
open Gowarc

def parseFOp (op : String) : Option FOp :=
  match op.splitOn ":" with
  | ["add", n, v] => some (.add (hx n) (hx v))
  | ["addint", n, i] => some (.addInt (hx n) (parseInt i))
  | ["addid", n, v] => some (.addId (hx n) (hx v))
  | ["set", n, v] => some (.set (hx n) (hx v))
  | ["setint", n, i] => some (.setInt (hx n) (parseInt i))
  | ["setid", n, v] => some (.setId (hx n) (hx v))
  | ["del", n] => some (.del (hx n))
  | ["sort"] => some .sort
  | ["get", n] => some (.get (hx n))
  | ["getall", n] => some (.getAll (hx n))
  | ["getid", n] => some (.getId (hx n))
  | ["has", n] => some (.has (hx n))
  | ["getint", n] => some (.getInt (hx n))
  | ["write"] => some .write
  | _ => none

def showFOut : FOut → String
  | .unit => "."
  | .bytes b => toHex b
  | .list l => joinWith "," (l.map toHex)
  | .bool b => showBool b
  | .int none => "missing"
  | .int (some none) => "err"
  | .int (some (some i)) => s!"ok{i}"

def fieldsRun (ops : List String) : String :=
  match ops.mapM parseFOp with
  | none => "bad-op"
  | some fops => joinWith ";" ((Fields.run [] fops).map (fun r => showFOut r.1 ++ "|" ++ toHex r.2))

def handleFields (args : List String) : String :=
  match args with
  | [ops] => fieldsRun (ops.splitOn ";")
  | _ => "bad-args"

def handleCanon (args : List String) : String :=
  match args with
  | [n] => toHex (canon (hx n))
  | _ => "bad-args"

end Gowarc.Driver
