import Gowarc.Driver.ParseH
import Gowarc.Model.Record
namespace Gowarc.Driver
open Gowarc

def parseOpts (s : String) : Opts :=
  let kv := parseKV s
  let g := fun k d => kvGet kv k d
  { syn := Pol.ofCode (parseNat (g "syn" "1")), spec := Pol.ofCode (parseNat (g "spec" "1")),
    unk := Pol.ofCode (parseNat (g "unk" "1")), blk := Pol.ofCode (parseNat (g "blk" "0")),
    skipParseBlock := parseBool (g "skip" "f"), addMissingRecordId := parseBool (g "addid" "t"),
    addMissingContentLength := parseBool (g "addcl" "t"), addMissingDigest := parseBool (g "adddig" "t"),
    fixContentLength := parseBool (g "fixcl" "t"), fixDigest := parseBool (g "fixdig" "t"),
    fixSyntaxErrors := parseBool (g "fixsyn" "t"), fixWarcFieldsBlockErrors := parseBool (g "fixwf" "f"),
    defaultAlg := (g "alg" "sha1").toUTF8.toList, defaultEnc := Enc.ofCode (parseNat (g "enc" "2")) }

/-- oracle table: entries kind:valuehex:bit, and gzip verdicts z:offset:status:consumed:contenthex -/
def parseOracles (s : String) (total : Nat := 0) : Oracles :=
  let raw : List (List String) := if s == "-" then [] else (s.splitOn ",").map (fun e => e.splitOn ":")
  let entries : List (String × Bytes × Bool) := raw.filterMap (fun e =>
    match e with
    | [k, v, b] => some (k, hx v, b == "1")
    | _ => none)
  let gzs : List (Nat × Sum Tag (Bytes × Bool × Nat)) := raw.filterMap (fun e =>
    match e with
    | ["z", off, st, consumed, content] =>
      some (parseNat off, if st == "ok" then .inr (hx content, false, parseNat consumed)
        else if st == "bad" then .inr (hx content, true, parseNat consumed)
        else if st == "eof" then .inl .eof
        else if st == "reader" then .inl .reader
        else .inl .other)
    | _ => none)
  let look := fun (k : String) (v : Bytes) => match entries.find? (fun e => e.1 == k && e.2.1 == v) with
    | some e => e.2.2
    | none => false
  { time := look "t", ip := look "i", uri := look "u", http := fun r v => look (if r then "h1" else "h0") v,
    -- the table is keyed by stream offset; the model asks with the bytes that remain: offset = total - remaining
    gz := fun b => (gzs.find? (fun e => e.1 == total - b.length)).map (·.2) }

def kindStr : BlockKind → String
  | .generic => "generic" | .httpReq => "httpReq" | .httpResp => "httpResp" | .revisit => "revisit" | .warcFields => "warcFields"

def parseFieldsArg (f : String) : Fields :=
  if f == "-" then [] else (f.splitOn ",").filterMap (fun kv =>
    match kv.splitOn ":" with | [n, v] => some (hx n, hx v) | _ => none)

def showRec (r : Rec) : String :=
  s!"ver={toHex r.verTxt} rt={r.rt} hdr={showFields r.hdr} kind={kindStr r.block.kind} block={toHex r.block.raw}"

/-- unmarshal <opts> <fault> <data> <oracles> -/
def handleUnmarshal (args : List String) : String :=
  match args with
  | o :: fault :: d :: orc :: _ =>
    let res := unmarshal realH (parseOpts o) (parseOracles orc (hx d).length) ⟨hx d, parseBool fault⟩
    match res.err, res.record with
    | none, some r => s!"ok off={res.offset} {showRec r} fnd={showTags res.fnd} rest={res.rest.length}"
    | none, none => "ok-without-record"
    | some t, _ => s!"err {tagStr t} off={res.offset} fnd={showTags res.fnd}"
  | _ => "bad-args"

/-- the header as NewRecordBuilder + AddWarcHeader calls leave it -/
def builderHeader (rt0 : Nat) (adds : Fields) : Fields :=
  adds.foldl (fun acc nv => acc.add nv.1 nv.2) (if rt0 != 0 then Fields.set [] (bs "WARC-Type") (recTypeName rt0) else [])

/-- build <opts> <ver> <rt0> <hdr> <content> <id> <oracles> [feed] -/
def handleBuild (args : List String) : String :=
  match args with
  | o :: ver :: rt0 :: hdr :: content :: id :: orc :: _ =>
    let verId := if ver == "1.0" then 1 else 2
    let res := build realH (parseOpts o) (parseOracles orc) ver.toUTF8.toList verId (parseNat rt0)
      (builderHeader (parseNat rt0) (parseFieldsArg hdr)) (hx content) (hx id)
    match res.err, res.record with
    | none, some r => s!"ok {showRec r} fnd={showTags res.fnd}"
    | none, none => "ok-without-record"
    | some t, _ => s!"err {tagStr t} fnd={showTags res.fnd}"
  | _ => "bad-args"

/-- roundtrip <bopts> <popts> <ver> <rt0> <hdr> <content> <tail> <oracles> <id> -/
def handleRoundtrip (args : List String) : String :=
  match args with
  | bo :: po :: ver :: rt0 :: hdr :: content :: tail :: orc :: id :: _ =>
    let verId := if ver == "1.0" then 1 else 2
    let Ω := parseOracles orc
    let b := build realH (parseOpts bo) Ω ver.toUTF8.toList verId (parseNat rt0)
      (builderHeader (parseNat rt0) (parseFieldsArg hdr)) (hx content) (hx id)
    match b.err, b.record with
    | some t, _ => s!"berr={tagStr t} bfnd={showTags b.fnd}"
    | none, none => "ok-without-record"
    | none, some r =>
      let ser := marshal r.verTxt r.hdr r.block.raw
      let u := unmarshal realH (parseOpts po) Ω ⟨ser ++ hx tail, false⟩
      match u.err, u.record with
      | none, some p =>
        let eq := p.verTxt == r.verTxt && p.rt == r.rt && p.hdr == r.hdr && p.block.raw == r.block.raw
        let re := marshal p.verTxt p.hdr p.block.raw == ser
        s!"berr=- bfnd={showTags b.fnd} uerr=- off={u.offset} ufnd={showTags u.fnd} eq={showBool eq} re={showBool re} rest={u.rest.length}"
      | some t, _ => s!"berr=- bfnd={showTags b.fnd} uerr={tagStr t} off={u.offset} ufnd={showTags u.fnd} eq=f re=f rest=-"
      | none, none => "ok-without-record"
  | _ => "bad-args"

/-- valhdr <opts> <ver> <hdr> <oracles>: validateHeader alone (names go through Add, as in the implementation) -/
def handleValHdr (args : List String) : String :=
  match args with
  | [o, ver, hdr, orc] =>
    let vid := if ver == "1.0" then 1 else if ver == "1.1" then 2 else 0
    let h : Fields := (parseFieldsArg hdr).foldl (fun acc nv => acc.add nv.1 nv.2) []
    match validateHeader (parseOpts o) (parseOracles orc) vid ⟨h, []⟩ with
    | (.ok rt, st) => s!"ok rt={rt} fnd={showTags st.fnd}"
    | (.error t, st) => s!"err {tagStr t} fnd={showTags st.fnd}"
  | _ => "bad-args"

def withLevels (o : Opts) (s p u b : Nat) : Opts :=
  { o with syn := Pol.ofCode s, spec := Pol.ofCode p, unk := Pol.ofCode u, blk := Pol.ofCode b }

/-- summary of a run under the three uniform levels and the error bit under all 81 combinations -/
def xpolSummary (run : Opts → Option Tag × List Tag) (base : Opts) : String :=
  let uni := [0, 1, 2].map (fun l =>
    let r := run (withLevels base l l l l)
    s!"L{l}={match r.1 with | some t => tagStr t | none => "-"}/{showTags r.2}")
  let bits := (List.range 81).map (fun i =>
    let r := run (withLevels base (i / 27) ((i / 9) % 3) ((i / 3) % 3) (i % 3))
    if r.1.isSome then '1' else '0')
  joinWith " " uni ++ " E=" ++ String.ofList bits

def handleXpol (args : List String) : String :=
  match args with
  | o :: fault :: d :: orc :: _ =>
    let Ω := parseOracles orc (hx d).length
    xpolSummary (fun o' => let r := unmarshal realH o' Ω ⟨hx d, parseBool fault⟩; (r.err, r.fnd)) (parseOpts o)
  | _ => "bad-args"

def handleXpolBuild (args : List String) : String :=
  match args with
  | o :: ver :: rt0 :: hdr :: content :: id :: orc :: _ =>
    let verId := if ver == "1.0" then 1 else 2
    let Ω := parseOracles orc
    xpolSummary (fun o' =>
      let r := build realH o' Ω ver.toUTF8.toList verId (parseNat rt0) (builderHeader (parseNat rt0) (parseFieldsArg hdr)) (hx content) (hx id)
      (r.err, r.fnd)) (parseOpts o)
  | _ => "bad-args"

end Gowarc.Driver
