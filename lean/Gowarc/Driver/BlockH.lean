import Gowarc.Driver.Util
import Gowarc.Model.BlockSM
import Gowarc.Model.Record
namespace Gowarc.Driver
open Gowarc

def sha1fmt (b : Bytes) : String := toHex (bs "sha1:" ++ b32Enc (realH .sha1 b))

def parseBOp (op : String) (headLen payLen : Nat) : Option BOp :=
  match op.splitOn ":" with
  | ["bd"] => some .blockDigest
  | ["pd"] => some .payloadDigest
  | ["size"] => some .size
  | ["cache"] => some .cache
  | ["iscached"] => some .isCached
  | ["raw", d] => some (.rawBytes (if d == "all" then headLen + payLen else parseNat d))
  | ["pay", d] => some (.payloadBytes (if d == "all" then payLen else parseNat d))
  | _ => none

def showBOut (isHttp : Bool) (op : BOp) : BOut → String
  | .digest d => if !isHttp && op == .payloadDigest then "na" else "digest:" ++ sha1fmt d
  | .size n => s!"size:{n}"
  | .flag b => "flag:" ++ showBool b
  | .ok => "ok"
  | .errReaccessed => "err:gowarc.Block:_tried_to_access_content_twice"
  | .bytes b => if !isHttp && (match op with | .payloadBytes _ => true | _ => false) then "na" else "bytes:" ++ toHex b

/-- block <cfg> <content> <ops> -/
def handleBlock (args : List String) : String :=
  match args with
  | [cfg, content, ops] =>
    let kv := parseKV cfg
    let c := hx content
    let isHttp := parseBool (kvGet kv "http" "f")
    let src := kvGet kv "src" "built"
    -- newHttpBlock with the syntax repair on: a head without its terminating blank line gets a CRLF appended
    let fix := parseBool (kvGet kv "fix" "f") && (src == "built" || src == "parsed")
    let head := if isHttp then (if !(headerBytes c).2.2 && fix then (headerBytes c).1 ++ crlf else (headerBytes c).1) else []
    let payload := if isHttp then (headerBytes c).2.1 else c
    let viaApi := src == "built" || src == "parsed"
    let st0 : BlkSt := { head := head, payload := payload, isHttp := isHttp,
                         cached := viaApi || src == "direct-cached", filt := viaApi,
                         pos := if viaApi then payload.length else 0, frozen := viaApi }
    let kind := if !isHttp then "generic" else if hasPrefix (bs "HTTP") head then "httpResp" else "httpReq"
    let opl := ops.splitOn ";"
    let (_, outs) := opl.foldl (fun (acc : BlkSt × List String) o =>
      match parseBOp o head.length payload.length with
      | none => (acc.1, "bad-op" :: acc.2)
      | some bop =>
        -- accessors a generic block does not have leave the state alone
        if !isHttp && (bop == .payloadDigest || (match bop with | .payloadBytes _ => true | _ => false)) then (acc.1, "na" :: acc.2)
        else
          let r := acc.1.step bop
          (r.1, showBOut isHttp bop r.2 :: acc.2)) (st0, [])
    s!"{kind} {head.length} {joinWith ";" outs.reverse}"
  | _ => "bad-args"

end Gowarc.Driver
