import Gowarc.Driver.Util
import Gowarc.Model.NameGen
namespace Gowarc.Driver
open Gowarc Gowarc.NameGen

def parseParam (s : String) : Option (Bytes × Arg) :=
  match s.splitOn "=" with
  | [k, v] =>
    if v.startsWith "i" then some (hx k, .int (parseInt (v.drop 1).toString))
    else if v.startsWith "s" then some (hx k, .str (hx (v.drop 1).toString))
    else none
  | _ => none

def nameLoop (ts h ho ip : Bytes) : Nat → Gen → List String → List String × Gen
  | 0, g, acc => (acc.reverse, g)
  | n + 1, g, acc =>
    let r := newName g ts ho h ip
    nameLoop ts h ho ip n r.2 ((match r.1 with | some b => toHex b | none => "unsupported") :: acc)

/-- namegen <prefix> <serial> <pattern> <ext> <params> <n> <host> <ip> -/
def handleNamegen (args : List String) : String :=
  match args with
  | [pre, ser, pat, ext, ps, n, host, ip] =>
    let custom := if ps == "-" then [] else (ps.splitOn "|").filterMap parseParam
    let g : Gen := ⟨hx pre, parseInt ser, hx pat, hx ext, custom⟩
    let r := nameLoop (bs "20210203040506") (hx host) (hx host) (hx ip) (parseNat n) g []
    s!"{joinWith "|" r.1} serial={r.2.serial}"
  | _ => "bad-args"

end Gowarc.Driver
