import Gowarc.Driver.Util
import Gowarc.Model.HeaderParser
import Gowarc.Model.WriteTo
namespace Gowarc.Driver
open Gowarc

def tagStr : Tag → String
  | .synMissingCR => "synMissingCR" | .synMissingNewline => "synMissingNewline" | .synDecode => "synDecode"
  | .synMissingColon => "synMissingColon" | .eoh => "eoh" | .missingEofMarker => "missingEofMarker" | .reader => "reader"
  | .synJunk => "synJunk" | .synStart => "synStart" | .versionMissing => "versionMissing" | .specVersion => "specVersion"
  | .specTrailer => "specTrailer" | .eof => "eof" | .unexpectedEof => "unexpectedEof"
  | .hdrField => "hdrField" | .hdrDuplicate => "hdrDuplicate" | .hdrMissing => "hdrMissing" | .hdrMissingCT => "hdrMissingCT"
  | .hdrConcurrent => "hdrConcurrent" | .hdrNoType => "hdrNoType" | .hdrUnknownType => "hdrUnknownType"
  | .length => "length" | .digestBlock => "digestBlock" | .digestPayload => "digestPayload" | .digestAlg => "digestAlg"
  | .notHttp => "notHttp" | .httpEoh => "httpEoh" | .httpParse => "httpParse" | .wfBlock => "wfBlock" | .other => "other"

def showTags (l : List Tag) : String := if l.isEmpty then "-" else joinWith "," (l.map tagStr)

def showFields (fs : Fields) : String :=
  if fs.isEmpty then "-" else joinWith "," (fs.map (fun nv => toHex nv.1 ++ ":" ++ toHex nv.2))

def handleDecHdr (args : List String) : String :=
  match args with
  | [d] => match decodeHeader (hx d) with | none => "err" | some b => "ok " ++ toHex b
  | _ => "bad-args"

/-- hdrparse <syn> <fault t/f> <data> -/
def handleHdrParse (args : List String) : String :=
  match args with
  | [syn, fault, d] =>
    match parseFields (Pol.ofCode (parseNat syn)) ⟨hx d, parseBool fault⟩ with
    | .ok fs fnd rest => s!"ok {showFields fs} {showTags fnd} {rest.rest.length}"
    | .err t fnd => s!"err {tagStr t} {showTags fnd}"
  | _ => "bad-args"

/-- apiparse <fields>: Add through the API, Write, parse back under each syntax policy -/
def handleApiParse (args : List String) : String :=
  match args with
  | [f] =>
    let pairs : List (Bytes × Bytes) := if f == "-" then [] else (f.splitOn ",").filterMap (fun kv =>
      match kv.splitOn ":" with | [n, v] => some (hx n, hx v) | _ => none)
    let fs : Fields := pairs.foldl (fun acc nv => acc.add nv.1 nv.2) []
    let ser := fs.write
    joinWith ";" ([0, 1, 2].map (fun pol =>
      match parseFields (Pol.ofCode pol) ⟨ser, false⟩ with
      | .ok fs' fnd _ => s!"{showFields fs'}/{showTags fnd}/"
      | .err t fnd => s!"-/{showTags fnd}/{tagStr t}"))
  | _ => "bad-args"

/-- wfault <fields> <budget>: Add through the API, Write to a writer that fails once after <budget> bytes -/
def handleWfault (args : List String) : String :=
  match args with
  | [f, b] =>
    let pairs : List (Bytes × Bytes) := if f == "-" then [] else (f.splitOn ",").filterMap (fun kv =>
      match kv.splitOn ":" with | [n, v] => some (hx n, hx v) | _ => none)
    let fs : Fields := pairs.foldl (fun acc nv => acc.add nv.1 nv.2) []
    let r := fs.writeTo ⟨[], parseNat b, false⟩
    s!"n={r.2.1} err={showBool r.2.2} got={r.1.got.length}:{toHex r.1.got}"
  | _ => "bad-args"

end Gowarc.Driver
