/-
  Line-protocol driver: one case per input line, one canonical outcome line per case.
  Built as a core-only `lean_exe`; it runs the model's executable definitions, nothing else.
-/
import Gowarc.Driver.Handlers
open Gowarc

partial def loop (hin : IO.FS.Stream) (hout : IO.FS.Stream) : IO Unit := do
  let line ← hin.getLine
  if line.isEmpty then return ()
  let l := String.ofList (line.toList.reverse.dropWhile (fun c => c == '\n' || c == '\r')).reverse
  hout.putStrLn (Gowarc.Driver.handleLine l)
  loop hin hout

def main : IO Unit := do
  let hin ← IO.getStdin
  let hout ← IO.getStdout
  loop hin hout
  hout.flush
