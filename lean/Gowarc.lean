import Gowarc.Model.Basic
import Gowarc.Model.FieldDef
import Gowarc.Model.Fields
