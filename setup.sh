#!/bin/sh
# Run once after a fresh restore (offline): build the Lean project, the driver and the Go harness.
set -e
cd "$(dirname "$0")"
export GOFLAGS=-mod=mod GOPROXY=off GOSUMDB=off GOTOOLCHAIN=local
mkdir -p .run evidence replay go/bin
cp /repo/go.sum go/go.sum
(cd go && go build -o bin/extract ./extract && ./bin/extract /repo /verif/lean/Gowarc/Gen >/dev/null)
(cd go && go build -tags verif -overlay overlay.json -o bin/corr ./corr)
(cd lean && lake build Gowarc driver Gowarc.Audit)
echo setup-ok
